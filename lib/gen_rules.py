"""Generate rules_gen.rs (L2 rule units) from the documented grammar in grammar.py:
FIRST / CONT predicates, callee contract stubs, per-unit NFAs of the documented right-hand
side, and the #[kani::proof] unit harnesses."""
import grammar as gr
from grammar import G, T, N, S, A, O, R, P, NF, FIRST, NULLABLE

# ---------------------------------------------------------------------------
# pseudo nonterminals for parameterised functions
G = dict(G)
G["BracedStatements"] = S(T("LBrace"), R(N("Statement")), T("RBrace"))
G["BlockOrStatement"] = A(N("BracedStatements"), N("Statement"))
G["StatementListTop"] = R(N("Statement"))
G["MultiClassStatements"] = S(P(N("MultiClassStatement")), T("RBrace"))
G["ObjectName"] = O(NF(("LBrace",), N("NameValue")))
G["OptTemplateArgList"] = O(N("TemplateArgList"))
G["OptValue"] = O(N("Value"))
G["ValueListBraces"] = gr.bracketed("LBrace", N("Value"), "RBrace")
G["ValueListSquares"] = gr.bracketed("LSquare", N("Value"), "RSquare")
G["IdentifierOrClassValue"] = A(N("ClassValue"), N("Identifier"))
G["BodyItemOpt"] = O(N("BodyItem"))
G["ValueSuffixOpt"] = O(N("ValueSuffix"))
# right-hand sides re-expressed over the pseudo nonterminals (same languages)
G["Let"] = S(T("Let"), N("LetList"), T("In"), N("BlockOrStatement"))
G["Foreach"] = S(T("Foreach"), N("ForeachIterator"), T("In"), N("BlockOrStatement"))
G["If"] = S(T("If"), N("Value"), T("Then"), N("BlockOrStatement"), O(S(T("ElseKw"), N("BlockOrStatement"))))
G["Defset"] = S(T("Defset"), N("Type"), N("Identifier"), T("Equal"), N("BracedStatements"))
G["MultiClass"] = S(T("MultiClass"), N("Identifier"), O(N("TemplateArgList")), N("ParentClassList"),
                    T("LBrace"), N("MultiClassStatements"))
G["SimpleValue"] = A(N("Integer"), N("String"), N("Code"), N("Boolean"), N("Uninitialized"), N("Bits"),
                     N("List"), N("Dag"), N("IdentifierOrClassValue"), N("BangOperator"), N("CondOperator"))
G["InnerNameValue"] = S(N("SimpleValue"), R(NF(("LBrace",), N("ValueSuffix"))))
# unit form of Dag over the DagArg callee (the recogniser in grammar.py spells the alternatives out)
G["Dag"] = S(T("LParen"), N("DagArg"), O(NF(gr.VALUE_CONT, N("DagArgList"))), T("RParen"))

ALL = sorted(G.keys())
RID = {k: i for i, k in enumerate(ALL)}


def nullable_first():
    nullable = {k: False for k in G}
    first = {k: set() for k in G}

    def nf(x):
        tag = x[0]
        if tag == "T":
            return False, set(x[1])
        if tag == "N":
            return nullable[x[1]], set(first[x[1]])
        if tag == "S":
            f = set()
            for y in x[1]:
                ny, fy = nf(y)
                f |= fy
                if not ny:
                    return False, f
            return True, f
        if tag == "A":
            n_, f = False, set()
            for y in x[1]:
                ny, fy = nf(y)
                n_ |= ny
                f |= fy
            return n_, f
        if tag == "G":
            ny, fy = nf(x[2])
            return ny, fy - set(x[1])
        if tag in ("O", "R"):
            _, f = nf(x[1])
            return True, f
        raise ValueError(tag)
    changed = True
    while changed:
        changed = False
        for k, rhs in G.items():
            n_, f = nf(rhs)
            if n_ != nullable[k] or f != first[k]:
                nullable[k], first[k] = n_, f
                changed = True
    return nullable, first, nf


NULLABLE, FIRST, _nf = nullable_first()


def cont_sets():
    """CONT(R): tokens that may continue a complete sentence of R inside R (over-approximation;
    only ever used as an ASSUMPTION after a callee placeholder: maximal munch)"""
    cont = {k: set() for k in G}

    def fi(x):
        tag = x[0]
        if tag == "T":
            return set()
        if tag == "N":
            return set(cont[x[1]])
        if tag == "S":
            res = set()
            for y in reversed(x[1]):
                res |= fi(y)
                ny, fy = _nf(y)
                if ny:
                    res |= fy
                else:
                    break
            return res
        if tag == "A":
            res = set()
            for y in x[1]:
                res |= fi(y)
            return res
        if tag == "G":
            return fi(x[2])
        if tag in ("O", "R"):
            _, fy = _nf(x[1])
            return fi(x[1]) | fy
        raise ValueError(tag)
    changed = True
    while changed:
        changed = False
        for k, rhs in G.items():
            c = fi(rhs)
            if c != cont[k]:
                cont[k] = c
                changed = True
    return cont


CONT = cont_sets()


def follow_sets():
    """FOLLOW(R) over the documented grammar: the tokens that may come right after a sentence of R
    in some sentential form (standard fixpoint).  Used to choose realistic tokens after a
    sentence in the generative harnesses."""
    follow = {k: set() for k in G}

    def walk(x, after_first, after_nullable, owner):
        """after_*: FIRST / nullability of what follows x inside the rule `owner`"""
        tag = x[0]
        if tag == "T":
            return
        if tag == "N":
            follow[x[1]] |= after_first
            if after_nullable:
                follow[x[1]] |= follow[owner]
            return
        if tag == "S":
            items = x[1]
            for i, y in enumerate(items):
                af, an = set(), True
                for z in items[i + 1:]:
                    nz, fz = _nf(z)
                    af |= fz
                    if not nz:
                        an = False
                        break
                if an:
                    af |= after_first
                walk(y, af, an and after_nullable, owner)
            return
        if tag == "A":
            for y in x[1]:
                walk(y, after_first, after_nullable, owner)
            return
        if tag == "G":
            walk(x[2], after_first, after_nullable, owner)
            return
        if tag == "O":
            walk(x[1], after_first, after_nullable, owner)
            return
        if tag == "R":
            _, fy = _nf(x[1])
            walk(x[1], after_first | fy, after_nullable, owner)
            return
        raise ValueError(tag)
    changed = True
    while changed:
        before = {k: set(v) for k, v in follow.items()}
        for k, rhs in G.items():
            walk(rhs, set(), True, k)
        changed = before != follow
    return follow


FOLLOW = follow_sets()
# pseudo nonterminals that no rule references inherit the FOLLOW of what they stand for
FOLLOW["ObjectName"] |= FIRST["RecordBody"] | FIRST["ParentClassList"] | {"Semi"}
FOLLOW["OptTemplateArgList"] |= FIRST["RecordBody"] | FIRST["ParentClassList"] | {"LBrace"}
FOLLOW["OptValue"] |= FOLLOW["SliceElement"]
FOLLOW["BodyItemOpt"] |= FIRST["BodyItem"] | {"RBrace"}
FOLLOW["ValueSuffixOpt"] |= FOLLOW["InnerValue"]
FOLLOW["MultiClassStatements"] |= FOLLOW["MultiClass"]

# ---------------------------------------------------------------------------
# callee rule functions that can be replaced by their contract
#   key: (rust path, signature kind, grammar nonterminal, progress, requires-keyword[, can decline])
ST = "crate::grammar::statement::"
VA = "crate::grammar::value::"
TY = "crate::grammar::type_::"
CALLEES = {
    "statement": (ST + "statement", "unit", "Statement", True, None),
    "multi_class_statement": (ST + "multi_class_statement", "unit", "MultiClassStatement", True, None),
    "include": (ST + "include", "unit", "Include", True, "Include"),
    "class": (ST + "class", "unit", "Class", True, "Class"),
    "def": (ST + "def", "unit", "Def", True, "Def"),
    "let": (ST + "let_", "unit", "Let", True, "Let"),
    "multi_class": (ST + "multi_class", "unit", "MultiClass", True, "MultiClass"),
    "defm": (ST + "defm", "unit", "Defm", True, "Defm"),
    "defset": (ST + "defset", "unit", "Defset", True, "Defset"),
    "defvar": (ST + "defvar", "unit", "Defvar", True, "Defvar"),
    "dump": (ST + "dump", "unit", "Dump", True, "Dump"),
    "foreach": (ST + "foreach", "unit", "Foreach", True, "Foreach"),
    "if": (ST + "if_", "unit", "If", True, "If"),
    "assert": (ST + "assert_", "unit", "Assert", True, "Assert"),
    "let_list": (ST + "let_list", "unit", "LetList", False, None),
    "let_item": (ST + "let_item", "unit", "LetItem", False, None),
    "multi_class_statements": (ST + "multi_class_statements", "unit", "MultiClassStatements", False, None),
    "foreach_iterator": (ST + "foreach_iterator", "unit", "ForeachIterator", False, None),
    "foreach_iterator_init": (ST + "foreach_iterator_init", "unit", "ForeachIteratorInit", False, None),
    "opt_template_arg_list": (ST + "opt_template_arg_list", "unit", "OptTemplateArgList", False, None),
    "template_arg_list": (ST + "template_arg_list", "unit", "TemplateArgList", False, "Less"),
    "template_arg_decl": (ST + "template_arg_decl", "unit", "TemplateArgDecl", False, None),
    "record_body": (ST + "record_body", "unit", "RecordBody", False, None),
    "parent_class_list": (ST + "parent_class_list", "unit", "ParentClassList", False, None),
    "class_ref": (ST + "class_ref", "unit", "ClassRef", False, None),
    "arg_value_list": (ST + "arg_value_list", "unit", "ArgValueList", False, None),
    "body": (ST + "body", "unit", "Body", False, None),
    "body_item": (ST + "body_item", "bool", "BodyItem", True, None, True),
    "field_def": (ST + "field_def", "unit", "FieldDef", False, None),
    "field_let": (ST + "field_let", "unit", "FieldLet", True, "Let"),
    "object_name": (ST + "object_name", "unit", "ObjectName", False, None),
    "statement_list": (ST + "statement_list", "stmtlist", None, False, None),
    "type": (TY + "type_", "unit", "Type", False, None),
    "bits_type": (TY + "bits_type", "unit", "BitsType", True, "Bits"),
    "list_type": (TY + "list_type", "unit", "ListType", True, "List"),
    "value": (VA + "value", "marker", "Value", False, None),
    "opt_value": (VA + "opt_value", "unit", "OptValue", False, None),
    "inner_value": (VA + "inner_value", "marker", "InnerValue", False, None),
    "name_value": (VA + "name_value", "marker", "NameValue", False, None),
    "opt_name_value": (VA + "opt_name_value", "unit", "ObjectName", False, None),
    "inner_name_value": (VA + "inner_name_value", "marker", "InnerNameValue", False, None),
    "simple_value": (VA + "simple_value", "marker", "SimpleValue", False, None),
    "value_suffix": (VA + "value_suffix", "bool", "ValueSuffix", True, None, True),
    "range_list": (VA + "range_list", "marker", "RangeList", False, None),
    "range_piece": (VA + "range_piece", "marker", "RangePiece", False, None),
    "slice_elements": (VA + "slice_elements", "marker", "SliceElements", False, None),
    "slice_element": (VA + "slice_element", "marker", "SliceElement", False, None),
    "bits": (VA + "bits", "marker", "Bits", False, "LBrace"),
    "list": (VA + "list", "marker", "List", False, "LSquare"),
    "dag": (VA + "dag", "marker", "Dag", False, "LParen"),
    "dagarg_list": (VA + "dagarg_list", "marker", "DagArgList", False, None),
    "dagarg": (VA + "dagarg", "marker", "DagArg", False, None),
    "identifier_or_class_value": (VA + "identifier_or_class_value", "marker", "IdentifierOrClassValue", False, "Id"),
    "bang_operator": (VA + "bang_operator", "marker", "BangOperator", False, None),
    "cond_operator": (VA + "cond_operator", "marker", "CondOperator", False, "XCond"),
    "cond_clause": (VA + "cond_clause", "marker", "CondClause", False, None),
}

# ---------------------------------------------------------------------------
# units: (name, call expression, documented nonterminal, stubbed callees, N tokens, first kind,
#         progress, extra NFA boundary nonterminals -> implied by callees)
SLT = "statement::StatementListType::"
UNITS = [
    ("source_file", "source_file(p);", "StatementListTop", ["statement"], 3, None),
    ("statement_list_block", f"statement::statement_list(p, {SLT}Block);", "BracedStatements", ["statement"], 4, None),
    ("statement_list_single", f"statement::statement_list(p, {SLT}SingleOrBlock);", "BlockOrStatement", ["statement"], 4, None),
    ("statement", "statement::statement(p);", "Statement",
     ["include", "assert", "class", "def", "defm", "defset", "defvar", "dump", "foreach", "if", "let", "multi_class"], 2, None),
    ("multi_class_statement", "statement::multi_class_statement(p);", "MultiClassStatement",
     ["assert", "def", "defm", "dump", "foreach", "let", "if"], 2, None),
    ("include", "statement::include(p);", "Include", [], 4, "Include"),
    ("class", "statement::class(p);", "Class", ["template_arg_list", "record_body"], 4, "Class"),
    ("def", "statement::def(p);", "Def", ["name_value", "record_body"], 3, "Def"),
    ("let", "statement::let_(p);", "Let", ["let_list", "statement_list"], 4, "Let"),
    ("let_list", "statement::let_list(p);", "LetList", ["let_item"], 5, None),
    ("let_item", "statement::let_item(p);", "LetItem", ["range_list", "value"], 6, None),
    ("multi_class", "statement::multi_class(p);", "MultiClass",
     ["template_arg_list", "parent_class_list", "multi_class_statements"], 5, "MultiClass"),
    ("multi_class_statements", "statement::multi_class_statements(p);", "MultiClassStatements",
     ["multi_class_statement"], 4, None),
    ("defm", "statement::defm(p);", "Defm", ["name_value", "parent_class_list"], 4, "Defm"),
    ("defset", "statement::defset(p);", "Defset", ["type", "statement_list"], 5, "Defset"),
    ("defvar", "statement::defvar(p);", "Defvar", ["value"], 5, "Defvar"),
    ("dump", "statement::dump(p);", "Dump", ["value"], 3, "Dump"),
    ("foreach", "statement::foreach(p);", "Foreach", ["foreach_iterator", "statement_list"], 4, "Foreach"),
    ("foreach_iterator", "statement::foreach_iterator(p);", "ForeachIterator", ["foreach_iterator_init"], 3, None),
    ("foreach_iterator_init", "statement::foreach_iterator_init(p);", "ForeachIteratorInit",
     ["range_list", "range_piece", "value"], 3, None),
    # r#if / r#assert are private to `statement`: made pub(super) in the scratch copy
    ("if", "statement::if_(p);", "If", ["value", "statement_list"], 5, "If"),
    ("assert", "statement::assert_(p);", "Assert", ["value"], 5, "Assert"),
    ("template_arg_list", "statement::template_arg_list(p);", "TemplateArgList", ["template_arg_decl"], 5, "Less"),
    ("template_arg_decl", "statement::template_arg_decl(p);", "TemplateArgDecl", ["type", "value"], 4, None),
    ("record_body", "statement::record_body(p);", "RecordBody", ["parent_class_list", "body"], 2, None),
    ("parent_class_list", "statement::parent_class_list(p);", "ParentClassList", ["class_ref"], 5, None),
    ("class_ref", "statement::class_ref(p);", "ClassRef", ["arg_value_list"], 4, None),
    ("arg_value_list", "statement::arg_value_list(p);", "ArgValueList", ["value"], 5, None),
    ("body", "statement::body(p);", "Body", ["body_item"], 4, None),
    ("body_item", "let ret = statement::body_item(p);", "BodyItemOpt", ["field_def", "field_let", "defvar", "assert", "dump"], 2, None),
    ("field_def", "statement::field_def(p);", "FieldDef", ["type", "value"], 5, None),
    ("field_let", "statement::field_let(p);", "FieldLet", ["range_list", "value"], 7, "Let"),
    ("type", "type_::type_(p);", "Type", ["bits_type", "list_type"], 2, None),
    ("bits_type", "type_::bits_type(p);", "BitsType", [], 4, "Bits"),
    ("list_type", "type_::list_type(p);", "ListType", ["type"], 4, "List"),
    ("value", "value::value(p);", "Value", ["inner_value"], 5, None),
    ("inner_value", "value::inner_value(p);", "InnerValue", ["simple_value", "value_suffix"], 4, None),
    ("name_value", "value::name_value(p);", "NameValue", ["inner_name_value"], 5, None),
    ("inner_name_value", "value::inner_name_value(p);", "InnerNameValue", ["simple_value", "value_suffix"], 4, None),
    ("value_suffix", "let ret = value::value_suffix(p);", "ValueSuffixOpt", ["range_list", "slice_elements"], 3, None),
    ("range_list", "value::range_list(p);", "RangeList", ["range_piece"], 5, None),
    ("range_piece", "value::range_piece(p);", "RangePiece", [], 4, None),
    ("slice_elements", "value::slice_elements(p);", "SliceElements", ["slice_element"], 5, None),
    ("slice_element", "value::slice_element(p);", "SliceElement", ["value"], 4, None),
    ("simple_value", "value::simple_value(p);", "SimpleValue",
     ["bits", "list", "dag", "identifier_or_class_value", "bang_operator", "cond_operator"], 3, None),
    ("bits", "value::bits(p);", "Bits", ["value"], 5, "LBrace"),
    ("list", "value::list(p);", "List", ["value", "type"], 6, "LSquare"),
    ("dag", "value::dag(p);", "Dag", ["dagarg", "dagarg_list"], 4, "LParen"),
    ("dagarg_list", "value::dagarg_list(p);", "DagArgList", ["dagarg"], 5, None),
    ("dagarg", "value::dagarg(p);", "DagArg", ["value"], 3, None),
    ("identifier_or_class_value", "value::identifier_or_class_value(p);", "IdentifierOrClassValue", ["arg_value_list"], 4, "Id"),
    ("bang_operator", "value::bang_operator(p);", "BangOperator", ["type", "value"], 7, None),
    ("cond_operator", "value::cond_operator(p);", "CondOperator", ["cond_clause"], 6, "XCond"),
    ("cond_clause", "value::cond_clause(p);", "CondClause", ["value"], 3, None),
]

# units whose known-finding region predicate is hand-written in rules_h.rs
HANDWRITTEN_KF = {"dag", "cond_operator", "slice_element"}


# which grammar nonterminal a stubbed callee represents in the unit's NFA
def callee_nt(c):
    return CALLEES[c][2]


# statement_list(p, typ) callee: the nonterminals it may stand for
STMTLIST_NTS = ["StatementListTop", "BracedStatements", "BlockOrStatement"]


# ---------------------------------------------------------------------------
# NFA construction over symbol classes

class Nfa:
    def __init__(self):
        self.n = 0
        self.eps = {}
        self.tr = []   # (from, class, to)

    def new(self):
        self.n += 1
        return self.n - 1

    def add_eps(self, a, b):
        self.eps.setdefault(a, set()).add(b)


def build(x, nfa, boundary, classes):
    """-> (start, end) of the fragment for regex x; nonterminals in `boundary` are symbols,
    the others are expanded inline"""
    tag = x[0]
    if tag == "T":
        s, e = nfa.new(), nfa.new()
        c = ("T", x[1])
        if c not in classes:
            classes.append(c)
        nfa.tr.append((s, classes.index(c), e))
        return s, e
    if tag == "N":
        if x[1] in boundary:
            s, e = nfa.new(), nfa.new()
            c = ("N", x[1])
            if c not in classes:
                classes.append(c)
            nfa.tr.append((s, classes.index(c), e))
            if NULLABLE[x[1]]:
                nfa.add_eps(s, e)   # an empty derivation of the callee logs no event
            return s, e
        return build(G[x[1]], nfa, boundary, classes)
    if tag == "S":
        s = e = nfa.new()
        for y in x[1]:
            a, b = build(y, nfa, boundary, classes)
            nfa.add_eps(e, a)
            e = b
        return s, e
    if tag == "A":
        s, e = nfa.new(), nfa.new()
        for y in x[1]:
            a, b = build(y, nfa, boundary, classes)
            nfa.add_eps(s, a)
            nfa.add_eps(b, e)
        return s, e
    if tag == "O":
        a, b = build(x[1], nfa, boundary, classes)
        s, e = nfa.new(), nfa.new()
        nfa.add_eps(s, a)
        nfa.add_eps(b, e)
        nfa.add_eps(s, e)
        return s, e
    if tag == "R":
        a, b = build(x[1], nfa, boundary, classes)
        s, e = nfa.new(), nfa.new()
        nfa.add_eps(s, a)
        nfa.add_eps(b, e)
        nfa.add_eps(s, e)
        nfa.add_eps(b, a)
        return s, e
    if tag == "G":
        # guard: the guarded alternative must not START with the excluded kinds: build the
        # fragment and mark it; enforced by removing the excluded kinds from its first classes
        return build(strip_first(x[2], x[1], boundary), nfa, boundary, classes)
    raise ValueError(tag)


def strip_first(x, excl, boundary):
    """regex for { w in L(x) : first token of w not in excl } where x = N(name) at a boundary:
    represented by a dedicated guarded callee class"""
    if x[0] == "N" and x[1] in boundary:
        return ("NG", x[1], frozenset(excl))
    raise ValueError("guard only supported on boundary nonterminals")


def closure(nfa, states):
    seen = set(states)
    stack = list(states)
    while stack:
        s = stack.pop()
        for t in nfa.eps.get(s, ()):
            if t not in seen:
                seen.add(t)
                stack.append(t)
    return seen


def compile_unit(nt, boundary):
    nfa = Nfa()
    classes = []
    _orig_build = build

    def b2(x):
        # handle NG nodes produced by strip_first
        return _orig_build(x, nfa, boundary, classes)
    # patch build for NG
    s, e = build_ng(G[nt], nfa, boundary, classes)
    start = closure(nfa, {s})
    # epsilon-free: for each transition (a, c, b): from a on class c to closure(b)
    trans = []
    for (a, c, b) in nfa.tr:
        trans.append((a, c, closure(nfa, {b})))
    if nfa.n > 64:
        raise ValueError(f"NFA of {nt} has {nfa.n} states (> 64)")
    return start, e, trans, classes, nfa.n


def build_ng(x, nfa, boundary, classes):
    tag = x[0]
    if tag == "NG":
        s, e = nfa.new(), nfa.new()
        c = ("NG", x[1], x[2])
        if c not in classes:
            classes.append(c)
        nfa.tr.append((s, classes.index(c), e))
        return s, e
    if tag == "G":
        return build_ng(strip_first(x[2], x[1], boundary), nfa, boundary, classes)
    if tag in ("T",):
        return build(x, nfa, boundary, classes)
    if tag == "N":
        if x[1] in boundary:
            return build(x, nfa, boundary, classes)
        return build_ng(G[x[1]], nfa, boundary, classes)
    if tag == "S":
        s = e = nfa.new()
        for y in x[1]:
            a, b = build_ng(y, nfa, boundary, classes)
            nfa.add_eps(e, a)
            e = b
        return s, e
    if tag == "A":
        s, e = nfa.new(), nfa.new()
        for y in x[1]:
            a, b = build_ng(y, nfa, boundary, classes)
            nfa.add_eps(s, a)
            nfa.add_eps(b, e)
        return s, e
    if tag == "O":
        a, b = build_ng(x[1], nfa, boundary, classes)
        s, e = nfa.new(), nfa.new()
        nfa.add_eps(s, a)
        nfa.add_eps(b, e)
        nfa.add_eps(s, e)
        return s, e
    if tag == "R":
        a, b = build_ng(x[1], nfa, boundary, classes)
        s, e = nfa.new(), nfa.new()
        nfa.add_eps(s, a)
        nfa.add_eps(b, e)
        nfa.add_eps(s, e)
        nfa.add_eps(b, a)
        return s, e
    raise ValueError(tag)


def mask(states):
    m = 0
    for s in states:
        m |= 1 << s
    return m


def kinds_pat(kinds):
    return " | ".join("K::" + k for k in sorted(kinds)) if kinds else "K::Eof if false"


def gen(tier="quick"):
    out = []
    w = out.append
    w("// GENERATED by lib/gen_rules.py from lib/grammar.py (the documented grammar). Do not edit.")
    w("#[allow(dead_code, unused_variables, non_snake_case, non_upper_case_globals, unused_mut, unused_parens)]")
    w("pub mod gen {")
    w("use super::*;")
    # FIRST / CONT predicates and RuleInfo per nonterminal used by a callee
    used_nts = sorted({c[2] for c in CALLEES.values() if c[2]} | set(STMTLIST_NTS))
    w("pub const RULE_NAMES: &[&str] = &[" + ", ".join('"%s"' % a for a in ALL) + "];")
    for nt in used_nts:
        w(f"pub fn first_{nt}(k: K) -> bool {{ matches!(k, {kinds_pat(FIRST[nt])}) }}")
        w(f"pub fn cont_{nt}(k: K) -> bool {{ matches!(k, {kinds_pat(CONT[nt])}) }}")
    # callee stubs
    for key, cal in CALLEES.items():
        path, sig, nt, progress, req = cal[:5]
        decline = len(cal) > 5 and cal[5]
        fn = "c_" + key
        if sig == "stmtlist":
            w(f"pub fn {fn}(p: &mut Parser, typ: statement::StatementListType) {{")
            w("    match typ {")
            for var, ntn in (("TopLevel", "StatementListTop"), ("Block", "BracedStatements"), ("SingleOrBlock", "BlockOrStatement")):
                w(f"        statement::StatementListType::{var} => {{ contract(p, &RuleInfo {{ id: {RID[ntn]}, nullable: {str(NULLABLE[ntn]).lower()}, progress: false }}, first_{ntn}, cont_{ntn}); }}")
            w("    }")
            w("}")
            continue
        info = (f"RuleInfo {{ id: {RID[nt]}, nullable: {str(NULLABLE[nt] or decline).lower()}, progress: {str(progress).lower()} }}")
        pre = ""
        if req:
            pre = (f"    assert!(p.peek() == K::{req}, \"C02: {key} is only called with {req} as look-ahead "
                   f"(its first token; Parser::assert would panic / the dispatcher peeked it)\");\n")
        if sig == "unit":
            w(f"pub fn {fn}(p: &mut Parser) {{\n{pre}    let r = {info};\n    contract(p, &r, first_{nt}, cont_{nt});\n}}")
        elif sig == "marker":
            w(f"pub fn {fn}(p: &mut Parser) -> CompletedMarker {{\n{pre}    let r = {info};\n    marker(contract(p, &r, first_{nt}, cont_{nt}))\n}}")
        elif sig == "bool":
            # returns false exactly when it declined (nothing consumed, no error)
            w(f"pub fn {fn}(p: &mut Parser) -> bool {{\n    let r = {info};\n"
              f"    let before = l1::l2_consumed(p);\n    let e0 = unsafe {{ l1::G_ERRS }};\n"
              f"    contract(p, &r, first_{nt}, cont_{nt});\n    l1::l2_consumed(p) != before || unsafe {{ l1::G_ERRS }} != e0\n}}")
    # units
    names = []
    for (name, call, nt, stubs, n, first) in UNITS:
        if tier == "thorough":
            n = min(7, n + 2)      # CAP = 8 stream slots
        boundary = set()
        for c in stubs:
            if CALLEES[c][1] == "stmtlist":
                boundary |= set(STMTLIST_NTS)
            else:
                boundary.add(callee_nt(c))
        start, end, trans, classes, nstates = compile_unit(nt, boundary)
        # class match predicates
        w(f"// ---- unit {name}: {nt}, boundary {sorted(boundary)}, {nstates} NFA states")
        w(f"pub fn step_{name}(m: u64, tag: u8, id: u8, fk: u8) -> u64 {{")
        w("    let mut r: u64 = 0;")
        w("    let k = if tag == l1::EV_TOK { kind_from(id) } else { K::Eof };")
        w("    let f = kind_from(fk);")
        for ci, c in enumerate(classes):
            if c[0] == "T":
                w(f"    let c{ci} = tag == l1::EV_TOK && matches!(k, {kinds_pat(c[1])});")
            elif c[0] == "N":
                w(f"    let c{ci} = tag == l1::EV_OK && id == {RID[c[1]]};")
            else:  # NG: callee whose first token is not one of the excluded kinds (ordered choice)
                w(f"    let c{ci} = tag == l1::EV_OK && id == {RID[c[1]]} && !matches!(f, {kinds_pat(c[2])});")
        for (a, ci, tgt) in trans:
            w(f"    if m & {hex(1 << a)} != 0 && c{ci} {{ r |= {hex(mask(tgt))}; }}")
        w("    r")
        w("}")
        prog = str(bool(name in CALLEES and CALLEES[name][3] and not (len(CALLEES[name]) > 5 and CALLEES[name][5]))).lower()
        startm, acceptm = hex(mask(start)), hex(1 << end)
        # recogniser: NFA over the event log
        w(f"pub fn accepted_{name}() -> (bool, bool) {{")
        w(f"    let mut m: u64 = {startm};")
        w("    let n = unsafe { l1::G_NEV };")
        for i in range(16):
            w(f"    if {i} < n {{ let (t, id, fk) = unsafe {{ (l1::G_EV_TAG[{i}], l1::G_EV_ID[{i}], l1::G_EV_FK[{i}]) }}; m = step_{name}(m, t, id, fk); }}")
        w(f"    (m & {acceptm} != 0, m != 0)")
        w("}")
        # generative: NFA over the stream, every token read as a terminal or as the placeholder
        # of a boundary callee whose FIRST contains it
        w(f"pub fn follow_{name}(k: K) -> bool {{ matches!(k, {kinds_pat(FOLLOW[nt])}) }}")
        w(f"pub fn sentence_{name}(p: &Parser, ns: usize) -> bool {{")
        w("    // the first ns tokens form a sentence (each read as a terminal or as the placeholder of a")
        w("    // callee whose FIRST contains it) and token ns, if any, is in FOLLOW(rule) and cannot continue it")
        w(f"    let mut m: u64 = {startm};")
        w("    let n = l1::l2_ntok(p);")
        w("    let mut ok = true;")
        for i in range(8):
            w(f"    if {i} <= ns && {i} < n {{")
            w(f"        let k = l1::l2_kind_at(p, {i});")
            w(f"        let mut r = step_{name}(m, l1::EV_TOK, k as u8, k as u8);")
            for bnt in sorted(boundary):
                w(f"        if first_{bnt}(k) {{ r |= step_{name}(m, l1::EV_OK, {RID[bnt]}, k as u8); }}")
            w(f"        if {i} < ns {{ m = r; }} else {{ ok = r == 0 && follow_{name}(k); }}")
            w("    }")
        w(f"    ok && (m & {acceptm} != 0)")
        w("}")
        stublines = []
        for st in ("token, crate::parser::verif_parser_h::g_token_l2", "start_node, crate::parser::verif_parser_h::g_start_node",
                   "finish_node, crate::parser::verif_parser_h::g_finish_node", "checkpoint, crate::parser::verif_parser_h::g_checkpoint",
                   "start_node_at, crate::parser::verif_parser_h::g_start_node_at"):
            a_, b_ = st.split(", ")
            stublines.append(f"#[kani::stub(rowan::GreenNodeBuilder::{a_}, {b_})]")
        stublines.append("#[kani::stub(crate::parser::ParserBase::error, crate::parser::ParserBase::verif_error_stub)]")
        stublines.append("#[kani::stub(crate::parser::ParserBase::expect, crate::parser::ParserBase::verif_expect_stub)]")
        stublines.append("#[kani::stub(crate::parser::ParserBase::at_set, crate::parser::ParserBase::verif_at_set_stub)]")
        stublines.append("#[kani::stub(crate::parser::ParserBase::skip, crate::parser::ParserBase::verif_skip_stub)]")
        for c in stubs:
            stublines.append(f"#[kani::stub({CALLEES[c][0]}, crate::grammar::verif_rules_h::gen::c_{c})]")
        unwind = n + 3
        fk = f"Some(K::{first})" if first else "None"
        kfexpr = ('kf_region_' + name + '(&p)') if name in HANDWRITTEN_KF else '0'
        hname = f"c04c02_unit_{name}"
        names.append(hname)
        w("#[kani::proof]")
        w(f"#[kani::unwind({unwind})]")
        for l in stublines:
            w(l)
        w(f"fn {hname}() {{")
        w(f"    let mut p = l1::l2_parser({n}, {fk});")
        w("    let entry_after_error: bool = kani::any();")
        w("    l1::l2_set_after_error(&mut p, entry_after_error);")
        w("    let la0 = p.peek();")
        if call.startswith("let ret"):
            w("    let ret = {")
            w("        let p = &mut p;")
            w(f"        {call[len('let ret = '):-1]}")
            w("    };")
            w("    assert!(!ret || l1::l2_consumed(&p) >= 1, \"C02: the rule returns true only after consuming a token (its callers loop on the result)\");")
        else:
            w("    {")
            w("        let p = &mut p;")
            w(f"        {call}")
            w("    }")
        w(f"    let kf = {kfexpr};")
        if call.startswith("let ret"):
            w("    // callers loop on the result: `true` must mean that input was consumed")
            w("    let consumed_before = 0;")
        w(f"    let (acc, viable) = accepted_{name}();")
        w(f"    unit_judge(&mut p, acc, viable, {prog}, matches!(la0, {kinds_pat(FIRST[nt])}), entry_after_error, la0, kf);")
        w("    std::mem::forget(p);")
        w("}")
        gname = f"c04_gen_{name}"
        names.append(gname)
        w("#[kani::proof]")
        w(f"#[kani::unwind({unwind})]")
        for l in stublines:
            w(l)
        w(f"fn {gname}() {{")
        w("    let n: usize = kani::any();")
        w(f"    kani::assume(n <= {n}{' && n >= 1' if first else ''});")
        w(f"    let mut p = l1::l2_parser(n, {fk});")
        w("    let ns: usize = kani::any();")
        w(f"    kani::assume(ns <= n{' && ns == n' if name == 'source_file' else ''}{' && ns >= 1' if first else ''});")
        w(f"    kani::assume(sentence_{name}(&p, ns));")
        w("    unsafe { G_GMODE = true; }")
        w("    {")
        w("        let p = &mut p;")
        w(f"        {call}")
        w("    }")
        w(f"    let kf = {kfexpr};")
        w("    gen_judge(&mut p, ns, kf);")
        w("    std::mem::forget(p);")
        w("}")
    w("}")
    return "\n".join(out) + "\n", names


if __name__ == "__main__":
    src, names = gen()
    print(len(src.splitlines()), "lines;", len(names), "units")
