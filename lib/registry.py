"""Harness registry: which harness sources are injected where, which harnesses
decide which property at which tier."""

PACKAGE_OF = {"syntax": "syntax", "ide": "ide", "lsp": "lsp"}

# (harness file under /verif, module file of the scratch copy, module name)
INJECT = {
    "syntax": [
        ("harness/syntax/common_h.rs", "crates/syntax/src/lib.rs", "verif_common"),
        ("harness/syntax/lexer_h.rs", "crates/syntax/src/lexer.rs", "verif_lexer_h"),
        ("harness/syntax/preproc_h.rs", "crates/syntax/src/preprocessor.rs", "verif_preproc_h"),
        ("harness/syntax/parser_h.rs", "crates/syntax/src/parser.rs", "verif_parser_h"),
        ("harness/syntax/rules_h.rs", "crates/syntax/src/grammar.rs", "verif_rules_h"),
    ],
    "ide": [
        ("harness/ide/line_index_h.rs", "crates/ide/src/line_index.rs", "verif_line_index_h"),
        ("harness/ide/typ_h.rs", "crates/ide/src/symbol_map/typ.rs", "verif_typ_h"),
    ],
    "lsp": [
        ("harness/lsp/position_h.rs", "crates/lsp/src/lib.rs", "verif_position_h"),
    ],
}

MODPATH = {
    "crates/syntax/src/lexer.rs": "lexer",
    "crates/syntax/src/lib.rs": "",
    "crates/syntax/src/preprocessor.rs": "preprocessor",
    "crates/syntax/src/parser.rs": "parser",
    "crates/syntax/src/grammar.rs": "grammar",
    "crates/ide/src/symbol_map/typ.rs": "symbol_map::typ",
    "crates/ide/src/lib.rs": "",
    "crates/ide/src/line_index.rs": "line_index",
    "crates/lsp/src/lib.rs": "",
    "crates/lsp/src/to_proto.rs": "to_proto",
}

# anchored source patches applied to the scratch copy only (file, regex, replacement, what)
PATCHES = {
    "syntax": [
        ("crates/syntax/src/parser.rs",
         r"^pub\(crate\) type Parser<'a> = ParserBase<PreProcessor<Lexer<'a>>>;",
         "#[cfg(not(kani))]\npub(crate) type Parser<'a> = ParserBase<PreProcessor<Lexer<'a>>>;\n"
         "#[cfg(kani)]\npub(crate) type Parser<'a> = ParserBase<crate::verif_common::SymStream<'a>>;",
         "Parser alias twin over the symbolic stream"),
        ("crates/syntax/src/lib.rs", r"\A", "#![cfg_attr(kani, recursion_limit = \"1024\")]\n",
         "recursion limit for stacked stub attributes"),
        ("crates/syntax/src/lib.rs",
         r"^pub fn parse\(text: &str\) -> Parse \{",
         "#[cfg(kani)]\npub fn parse(_text: &str) -> Parse {\n    unimplemented!(\"compiled out under cfg(kani)\")\n}\n\n"
         "#[cfg(not(kani))]\npub fn parse(text: &str) -> Parse {",
         "lib.rs::parse compiled out under cfg(kani)"),
    ],
}

KF_IDS = [
    "C14_DIGIT_LEADING_IDENT", "C14_ESCAPED_BACKSLASH_BEFORE_QUOTE",
    "C14_NESTED_BLOCK_COMMENT", "C14_SIGN_AT_EOF",
    "C15_EOF_IN_DISABLED_REGION", "C15_UNTERMINATED_ENABLED_CONDITIONAL",
    "C20_BANG_OFFERED_NOT_LEXED", "C20_BANG_LEXED_NOT_OFFERED",
    "C04_DAG_OPERATOR_RESTRICTED", "C04_COND_WITHOUT_CLAUSE", "C04_SLICE_ELEMENT_SECOND_VALUE",
]


def H(name, props, tier="quick", timeout=900, weight=10, mem_gb=16, **kw):
    d = dict(name=name, props=props, tier=tier, timeout=timeout, weight=weight, mem_gb=mem_gb)
    d.update(kw)
    return d


HARNESSES = [
    H("c14c01c02_lexer_dispatch", ["C14", "C01", "C02", "C17", "C20"], weight=20),
] + [
    H(f"c14c01c02_lex_{r}_q", ["C14", "C01", "C02", "C17"], weight=100 if r == "number" else 25,
      unwind_is_violation=True, unwind_replay="lex_hang", fallback=f"c14c01c02_lex_{r}_s")
    for r in ["whitespace", "line_comment", "block_comment", "number", "identifier", "string", "var_name", "code",
              "hash"]
] + [
    H(f"c14c01c02_lex_{r}_s", ["FALLBACK"], weight=10, unwind_is_violation=True, unwind_replay="lex_hang")
    for r in ["whitespace", "line_comment", "block_comment", "number", "identifier", "string", "var_name", "code",
              "hash"]
] + [
] + [
    H(f"c01c02c17_lex_na_{n}", ["C01", "C02", "C17"], weight=25, timeout=600)
    for n in ["string", "line_comment", "block_comment", "code"]
] + [
    H("c14c20_lex_bang_words_q", ["C14", "C20"], weight=80),
    H("c14c20_lex_keyword_words_q", ["C14", "C20"], weight=80),
] + [
    H(f"c14c01c02_lex_{r}_t", ["C14", "C01", "C02", "C17"], tier="thorough", timeout=3600, weight=200)
    for r in ["whitespace", "line_comment", "block_comment", "number", "identifier", "string",
              "var_name", "code", "hash"]
]
HARNESSES += [
    H(f"c10_{f}_n4", ["C10"], weight=80, timeout=1500) for f in ["new", "to", "from"]
] + [
    H("c10_wrappers_concrete", ["C10"], weight=20),
    H("c10_lsp_passthrough", ["C10"], weight=40, stubs=2),
] + [
    H(f"c10_{f}_n6", ["C10"], tier="thorough", weight=300, timeout=7200, mem_gb=30)
    for f in ["new", "to", "from"]
]
HARNESSES += [
    H(f"c15c01c02_pp_{n}_q", ["C15", "C01", "C02", "C17"], weight=15, unwind_is_violation=True, unwind_replay="pp_hang",
      allow_unreachable_w=n in ("endif", "define", "plain", "eof"),
      fallback="c15c01c02_pp_define_s" if n == "define" else None, timeout=600 if n == "define" else 900)
    for n in ["ifdef", "ifndef", "else", "endif", "define", "plain", "eof"]
] + [
    H("c15c01c02_pp_passthrough", ["C15", "C01", "C02", "C17"], weight=15),
    H("c15c01c02_pp_define_s", ["FALLBACK"], weight=10, timeout=1500),
    H("c15_pp_unterminated_enabled", ["C15"], weight=15),
] + [
    H(f"c15c01c02_pp_{n}_t", ["C15", "C01", "C02"], tier="thorough", weight=100, timeout=3600)
    for n in ["ifdef", "ifndef", "else"]
] + [
    H("c15_pp_ifdef_defined_t", ["C15"], tier="thorough", weight=300, timeout=5400, mem_gb=30),
    H("c15_pp_ifndef_defined_t", ["C15"], tier="thorough", weight=300, timeout=5400, mem_gb=30),
]
HARNESSES += [
    H("c13_cast_relation_q", ["C13"], weight=60, stubs=1),
    H("c13_cast_relation_record_pairs", ["C13"], weight=100, stubs=2, timeout=1800),
    H("c13_cast_relation_records", ["X13"], weight=200, stubs=1, timeout=3600, mem_gb=24),
    H("c13_cast_relation_t", ["C13"], tier="thorough", weight=300, timeout=7200, mem_gb=30, stubs=1),
]
HARNESSES += [
    H("c20_bang_vocabulary", ["C20"], weight=120, needs_completion=True, timeout=1800),
    H("c20_keyword_vocabulary", ["C20"], weight=60, needs_completion=True),
]
import gen_rules as _gr  # noqa: E402
HARNESSES += [
    H("c04c02_unit_" + u[0], ["C04", "C02"], weight=30, timeout=1200, replay="l2", unit=u[0],
      unwind_is_violation=True, unwind_replay="l2")
    for u in _gr.UNITS
] + [
    H("c04_gen_" + u[0], ["C04"], weight=30, timeout=1200, replay="l2", unit=u[0])
    for u in _gr.UNITS
]
L1 = ["c01c02_l1_eat", "c01c02_l1_skip", "c01c02_l1_eat_if", "c01c02c17_l1_expect_with_msg",
      "c01c02_l1_assert", "c01c02c17_l1_error_and_eat", "c01c02c17_l1_error_and_recover",
      "c02c17_l1_error_real", "c01c02_l1_new", "c02c04_l1_at_set_tables"]
L1_FALLBACK = {"c01c02_l1_eat": "c01c02_l1_eat_s", "c01c02_l1_skip": "c01c02_l1_skip_s",
               "c01c02c17_l1_error_and_eat": "c01c02c17_l1_error_and_eat_s"}
HARNESSES += [
    H(n, [p for p in ("C01", "C02", "C17", "C04") if p.lower() in n.split("_")[0]], weight=40,
      replay=None if n in ("c02c17_l1_error_real",) else ("tables" if n == "c02c04_l1_at_set_tables" else "l1"),
      fallback=L1_FALLBACK.get(n))
    for n in L1
] + [
    H(n, ["FALLBACK"], weight=10, replay="l1") for n in L1_FALLBACK.values()
]


def by_name(name):
    for h in HARNESSES:
        if h["name"] == name:
            return h
    return None


def plan_for(prop, tier):
    out = []
    for h in HARNESSES:
        if prop not in h["props"]:
            continue
        if h["tier"] == "quick" or tier == "thorough":
            out.append(h)
    return out

PROP_META = {
    "C10": {
        "bounds": "every text of <= 4 symbols (thorough: 6) over {a, space, LF, CR, U+00E9, U+20AC, U+1F600, FF, "
                  "U+2028} (<= 16 / 24 bytes), every char-boundary offset, every (line, column) up to one "
                  "past the extremes",
        "outside": "longer texts; offsets strictly inside a CR LF pair and columns inside a surrogate pair are "
                   "only checked for absence of panics; LineIndex's String/Vec fields (the struct wrappers are "
                   "checked on one concrete text; Vec::push/String::from trusted)",
        "assumptions": ["LineIndex methods are one-line wrappers of the free functions that are verified",
                        "lsp to_proto/from_proto verified as pass-through with LineIndex methods stubbed by recorders"],
    },
    "C01": {
        "bounds": "parser: every stream of <= 5 tokens of any kind, widths 1..2, arbitrary pre-state under Inv; "
                  "lexer: ASCII text <= 6 bytes (8 thorough); preprocessor: suffix <= 5 tokens",
        "outside": "rowan's builder/cursor (trusted), non-ASCII text at the lexer level, the manual induction "
                   "over call histories, grammar code calling save/lex directly (would void the modular argument)",
        "assumptions": ["rowan GreenNodeBuilder replaced by a checking ghost recorder",
                        "SymStream yields every (kind,width) sequence the L0 contract allows"],
    },
    "C02": {
        "bounds": "as C01; grammar units: see harness list",
        "outside": "native stack depth (nesting > 256), texts >= 4 GiB, message text content",
        "assumptions": ["Lexer::error / PreProcessor::error / ParserBase::error stubbed (message construction)"],
    },
    "C17": {
        "bounds": "as C01",
        "outside": "every range that is copied from rowan nodes by ide (needs whole programs)",
        "assumptions": [],
    },
    "C15": {
        "bounds": "one eat() with concrete first token and every suffix of <= 5 (thorough 7) tokens over "
                  "{#ifdef,#ifndef,#else,#endif,#define,Id(M|N),;,ws}; macro set empty",
        "outside": "non-empty macro sets (HashSet insert explodes), manual composition of steps",
        "assumptions": ["define_macro replaced by ghost recorder", "RandomState::new fixed"],
    },
    "C04": {
        "bounds": "every rule function as a unit over streams of <= N (2..7) symbolic non-trivia tokens of any kind; "
                  "callee sentences are single placeholder tokens with kind in FIRST(callee)",
        "outside": "typed accessors of ast.rs, real .td corpus, manual composition over the derivation, "
                   "error suppression after an earlier error (entry with is_after_error is only checked for panics)",
        "assumptions": ["callee contracts (ok/empty/fail, FIRST, CONT maximal munch) from lib/grammar.py",
                        "rowan builder ghost, ParserBase::{error,expect,at_set,skip} stubbed by verified summaries"],
    },
    "C13": {
        "bounds": "all pairs of record-free types of list-nesting depth <= 2 (thorough 3), bits widths 0..3",
        "outside": "pairs involving Type::Record (class hierarchy lookup through IndexMap/arena: measured "
                   "time-out), check_template_args, unresolved names, operator arity, syntax-error merging",
        "assumptions": ["SymbolMap::default() (never consulted for record-free types)", "RandomState::new fixed"],
    },
    "C20": {
        "bounds": "every word of <= 12 bytes over [a-z0-9_] after `!`; the finite offered keyword/type/value lists",
        "outside": "class-name completion (whole programs); completion contexts other than the four dumped",
        "assumptions": ["completion tables obtained by running the real Analysis::completion natively on 5 fixtures",
                        "Lexer::error stubbed"],
    },
    "C14": {
        "bounds": "one lexer step on every ASCII text of <= 6 bytes (block comments/#: 8, code: 7); "
                  "unwinding assertions on",
        "outside": "texts longer than the bound; non-ASCII bytes inside strings/comments; integer literals "
                   "beyond 6 digits (range errors); sequences are covered by the one-step argument "
                   "(lexer keeps no state besides the cursor)",
        "assumptions": ["Lexer::error stubbed (message text not copied)",
                        "reference lexer transcribed from the TableGen Programmer's Reference"],
    },
}
