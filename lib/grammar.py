"""The documented TableGen grammar (syntax.md of the repository, extended by the rule
comments in crates/syntax/src/grammar/*.rs and by the allowances the property names:
a trailing separator in bracketed lists), as data.

Used three ways:
  * native reference recogniser over token kinds (replay oracle for C04, encoding validation),
  * FIRST / nullable sets for the callee contracts of the L2 rule units,
  * per-unit NFAs (Rust tables) against which each real rule function is checked by the solver.

Terminals are TokenKind names.  Nothing here is derived from the parser code.
"""
import functools

# ---------------------------------------------------------------------------
# regex AST over symbols


def T(*kinds):        # one token out of a set of kinds
    return ("T", frozenset(kinds))


def N(name):          # nonterminal
    return ("N", name)


def S(*xs):           # sequence
    return ("S", tuple(xs))


def A(*xs):           # alternatives
    return ("A", tuple(xs))


def O(x):             # optional
    return ("O", x)


def R(x):             # zero or more
    return ("R", x)


def NF(kinds, x):     # x, but only when the next token is NOT one of `kinds` (ordered choice)
    return ("G", frozenset(kinds), x)


def P(x):             # one or more
    return S(x, R(x))


def sep_list(x, sep=","):          # X ( sep X )*
    return S(x, R(S(T(sep_kind(sep)), x)))


def bracketed(bra, x, ket, sep=","):   # bra ( X (sep X)* sep? )? ket   -- trailing separator allowed
    return S(T(bra), O(S(sep_list(x, sep), O(T(sep_kind(sep))))), T(ket))


def sep_kind(sep):
    return {",": "Comma"}[sep]


BANG_OPS = [
    "XAdd", "XAnd", "XCast", "XCon", "XDag", "XDiv", "XEmpty", "XEq", "XExists", "XFilter", "XFind", "XFoldl",
    "XForEach", "XGe", "XGetDagArg", "XGetDagName", "XGetDagOp", "XGt", "XHead", "XIf", "XInitialized",
    "XInterleave", "XIsA", "XLe", "XListConcat", "XListFlatten", "XListRemove", "XListSplat", "XLog2", "XLt",
    "XMul", "XNe", "XNot", "XOr", "XRange", "XRepr", "XSetDagArg", "XSetDagName", "XSetDagOp", "XShl", "XSize",
    "XSra", "XSrl", "XStrConcat", "XSub", "XSubst", "XSubstr", "XTail", "XToLower", "XToUpper", "XXor",
]

VALUE_CONT = ("LBrace", "LSquare", "Dot", "Paste")

BLOCK = A(S(T("LBrace"), R(N("Statement")), T("RBrace")), N("Statement"))

G = {
    "SourceFile": R(N("Statement")),
    "Statement": A(N("Include"), N("Assert"), N("Class"), N("Def"), N("Defm"), N("Defset"), N("Defvar"),
                   N("Dump"), N("Foreach"), N("If"), N("Let"), N("MultiClass")),
    "Include": S(T("Include"), N("String")),
    "Class": S(T("Class"), N("Identifier"), O(N("TemplateArgList")), N("RecordBody")),
    # `{`, `:` and `;` right after def/defm always start the body / parent list (anonymous record)
    "Def": S(T("Def"), O(NF(("LBrace",), N("NameValue"))), N("RecordBody")),
    "Let": S(T("Let"), N("LetList"), T("In"), BLOCK),
    "LetList": sep_list(N("LetItem")),
    "LetItem": S(N("Identifier"), O(S(T("Less"), N("RangeList"), T("Greater"))), T("Equal"), N("Value")),
    "MultiClass": S(T("MultiClass"), N("Identifier"), O(N("TemplateArgList")), N("ParentClassList"),
                    T("LBrace"), P(N("MultiClassStatement")), T("RBrace")),
    "MultiClassStatement": A(N("Assert"), N("Def"), N("Defm"), N("Dump"), N("Foreach"), N("Let"), N("If")),
    "Defm": S(T("Defm"), O(NF(("LBrace",), N("NameValue"))), N("ParentClassList"), T("Semi")),
    "Defset": S(T("Defset"), N("Type"), N("Identifier"), T("Equal"), T("LBrace"), R(N("Statement")), T("RBrace")),
    "Defvar": S(T("Defvar"), N("Identifier"), T("Equal"), N("Value"), T("Semi")),
    "Dump": S(T("Dump"), N("Value"), T("Semi")),
    "Foreach": S(T("Foreach"), N("ForeachIterator"), T("In"), BLOCK),
    "ForeachIterator": S(N("Identifier"), T("Equal"), N("ForeachIteratorInit")),
    # ordered choice (the documented alternatives overlap: `{1,2}` is also a Bits value and
    # `1{2}` a value with a range suffix); `{` and an integer commit to the first two
    "ForeachIteratorInit": A(S(T("LBrace"), N("RangeList"), T("RBrace")), N("RangePiece"),
                             NF(("LBrace", "IntVal"), N("Value"))),
    "If": S(T("If"), N("Value"), T("Then"), BLOCK, O(S(T("ElseKw"), BLOCK))),
    "Assert": S(T("Assert"), N("Value"), T("Comma"), N("Value"), T("Semi")),
    "TemplateArgList": bracketed("Less", N("TemplateArgDecl"), "Greater"),
    "TemplateArgDecl": S(N("Type"), N("Identifier"), O(S(T("Equal"), N("Value")))),
    "RecordBody": S(N("ParentClassList"), N("Body")),
    "ParentClassList": O(S(T("Colon"), sep_list(N("ClassRef")))),
    "ClassRef": S(N("Identifier"), O(S(T("Less"), N("ArgValueList"), T("Greater")))),
    # positional arguments before named ones
    "ArgValueList": O(A(S(sep_list(N("PositionalArgValue")), R(S(T("Comma"), N("NamedArgValue")))),
                        sep_list(N("NamedArgValue")))),
    "PositionalArgValue": N("Value"),
    "NamedArgValue": S(N("Value"), T("Equal"), N("Value")),
    "Body": A(T("Semi"), S(T("LBrace"), R(N("BodyItem")), T("RBrace"))),
    "BodyItem": A(N("FieldDef"), N("FieldLet"), N("Defvar"), N("Assert"), N("Dump")),
    "FieldDef": S(O(T("Field")), N("Type"), N("Identifier"), O(S(T("Equal"), N("Value"))), T("Semi")),
    "FieldLet": S(T("Let"), N("Identifier"), O(S(T("LBrace"), N("RangeList"), T("RBrace"))), T("Equal"),
                  N("Value"), T("Semi")),
    "Type": A(T("Bit"), T("Int"), T("String"), T("Dag"), T("Code"), N("BitsType"), N("ListType"), N("Identifier")),
    "BitsType": S(T("Bits"), T("Less"), N("Integer"), T("Greater")),
    "ListType": S(T("List"), T("Less"), N("Type"), T("Greater")),
    "Value": S(N("InnerValue"), R(S(T("Paste"), N("InnerValue")))),
    "InnerValue": S(N("SimpleValue"), R(N("ValueSuffix"))),
    # name mode (object names of def/defm): no `{` suffix, it starts the body
    "NameValue": S(N("InnerNameValue"), R(S(T("Paste"), N("InnerNameValue")))),
    "InnerNameValue": S(N("SimpleValue"), R(A(N("SliceSuffix"), N("FieldSuffix")))),
    "ValueSuffix": A(N("RangeSuffix"), N("SliceSuffix"), N("FieldSuffix")),
    "RangeSuffix": S(T("LBrace"), N("RangeList"), T("RBrace")),
    "RangeList": sep_list(N("RangePiece")),
    "RangePiece": S(N("Integer"), O(A(S(T("DotDotDot"), N("Integer")), S(T("Minus"), N("Integer")), T("IntVal")))),
    "SliceSuffix": S(T("LSquare"), N("SliceElements"), T("RSquare")),
    "SliceElements": S(sep_list(N("SliceElement")), O(T("Comma"))),
    "SliceElement": S(N("Value"), O(A(S(T("DotDotDot"), N("Value")), S(T("Minus"), N("Value")), N("Integer")))),
    "FieldSuffix": S(T("Dot"), N("Identifier")),
    "SimpleValue": A(N("Integer"), N("String"), N("Code"), N("Boolean"), N("Uninitialized"), N("Bits"),
                     N("List"), N("Dag"), N("ClassValue"), N("Identifier"), N("BangOperator"),
                     N("CondOperator")),
    "Integer": T("IntVal", "BinaryIntVal"),
    "String": P(T("StrVal")),                      # adjacent string literals are concatenated
    "Code": T("CodeFragment"),
    "Boolean": T("TrueVal", "FalseVal"),
    "Uninitialized": T("Question"),
    "Bits": bracketed("LBrace", N("Value"), "RBrace"),
    "List": S(bracketed("LSquare", N("Value"), "RSquare"), O(S(T("Less"), N("Type"), T("Greater")))),
    # a `{`, `[`, `.` or `#` right after the operator value continues that value (suffix / paste),
    # it cannot start the first argument (maximal munch, as in llvm-tblgen)
    "Dag": S(T("LParen"),
             A(S(N("Value"), T("Colon"), T("VarName"), O(N("DagArgList"))),
               S(T("VarName"), O(N("DagArgList"))),
               S(N("Value"), O(NF(VALUE_CONT, N("DagArgList"))))),
             T("RParen")),
    "DagArgList": sep_list(N("DagArg")),
    "DagArg": A(S(N("Value"), O(S(T("Colon"), T("VarName")))), T("VarName")),
    "Identifier": T("Id"),
    "ClassValue": S(N("Identifier"), T("Less"), N("ArgValueList"), T("Greater")),
    "BangOperator": S(T(*BANG_OPS), O(S(T("Less"), N("Type"), T("Greater"))), bracketed("LParen", N("Value"), "RParen")),
    "CondOperator": S(T("XCond"), T("LParen"), sep_list(N("CondClause")), O(T("Comma")), T("RParen")),
    "CondClause": S(N("Value"), T("Colon"), N("Value")),
}

TRIVIA = {"Whitespace", "LineComment", "BlockComment", "PreProcessor"}

# SyntaxKind token names (as printed by the native helper) -> TokenKind names
SK2TK = {
    "AssertKw": "Assert", "BitsKw": "Bits", "ClassKw": "Class", "CodeKw": "Code", "DagKw": "Dag", "DefKw": "Def",
    "DefmKw": "Defm", "DefsetKw": "Defset", "DefvarKw": "Defvar", "DumpKw": "Dump", "ForeachKw": "Foreach",
    "IfKw": "If", "IncludeKw": "Include", "LetKw": "Let", "ListKw": "List", "MultiClassKw": "MultiClass",
    "StringKw": "String", "VarNameKw": "VarName",
}


# ---------------------------------------------------------------------------
# recogniser: set of end positions reachable from a start position

def grammar_with_known(listed):
    """the documented grammar adjusted by the LISTED known findings (so that a native search
    for disagreements only reports deviations that are not already recorded)"""
    g = dict(G)
    if "C04_DAG_OPERATOR_RESTRICTED" in listed:
        op_first = ("Id", "XCast", "Question", "XGetDagOp")
        not_op = tuple(sorted((FIRST["DagArg"]) - set(op_first)))
        g["Dag"] = S(T("LParen"),
                     A(S(NF(not_op, N("Value")), T("Colon"), T("VarName"), O(N("DagArgList"))),
                       S(NF(not_op, N("Value")), O(NF(VALUE_CONT, N("DagArgList"))))),
                     T("RParen"))
    if "C04_COND_WITHOUT_CLAUSE" in listed:
        g["CondOperator"] = S(T("XCond"), T("LParen"), O(S(sep_list(N("CondClause")), O(T("Comma")))), T("RParen"))
    if "C04_SLICE_ELEMENT_SECOND_VALUE" in listed:
        g["SliceElement"] = S(N("Value"), O(A(S(T("DotDotDot"), N("Value")), S(T("Minus"), N("Value")),
                                              NF(VALUE_CONT, N("Value")))))
    return g


def recognise(tokens, start="SourceFile", g=None):
    """True iff the token-kind sequence is derivable from `start`"""
    if g is None:
        g = G
    toks = tuple(tokens)
    n = len(toks)

    @functools.lru_cache(maxsize=None)
    def nt(name, i):
        return frozenset(ends(g[name], i))

    def ends(x, i):
        tag = x[0]
        if tag == "T":
            return {i + 1} if i < n and toks[i] in x[1] else set()
        if tag == "N":
            return set(nt(x[1], i))
        if tag == "S":
            cur = {i}
            for y in x[1]:
                nxt = set()
                for j in cur:
                    nxt |= ends(y, j)
                cur = nxt
                if not cur:
                    break
            return cur
        if tag == "A":
            out = set()
            for y in x[1]:
                out |= ends(y, i)
            return out
        if tag == "G":
            if i < n and toks[i] in x[1]:
                return set()
            return ends(x[2], i)
        if tag == "O":
            return {i} | ends(x[1], i)
        if tag == "R":
            seen = {i}
            frontier = {i}
            while frontier:
                nxt = set()
                for j in frontier:
                    for e in ends(x[1], j):
                        if e not in seen and e > j:
                            seen.add(e)
                            nxt.add(e)
                frontier = nxt
            return seen
        raise ValueError(tag)

    import sys
    sys.setrecursionlimit(10000)
    return n in nt(start, 0)


def kinds_from_tree_tokens(s):
    """token kinds of a real parse (helper output 'tokens') -> TokenKind names without trivia;
    None if the text contains a lexical Error token"""
    out = []
    for k in s.split():
        k = SK2TK.get(k, k)
        if k in TRIVIA:
            continue
        if k in ("Error",):
            return None
        out.append(k)
    return out


# ---------------------------------------------------------------------------
# FIRST / nullable

def _nullable_first():
    nullable = {k: False for k in G}
    first = {k: set() for k in G}

    def nf(x):
        tag = x[0]
        if tag == "T":
            return False, set(x[1])
        if tag == "N":
            return nullable[x[1]], set(first[x[1]])
        if tag == "S":
            f = set()
            for y in x[1]:
                ny, fy = nf(y)
                f |= fy
                if not ny:
                    return False, f
            return True, f
        if tag == "A":
            n_, f = False, set()
            for y in x[1]:
                ny, fy = nf(y)
                n_ |= ny
                f |= fy
            return n_, f
        if tag == "G":
            ny, fy = nf(x[2])
            return ny, fy - set(x[1])
        if tag in ("O", "R"):
            _, f = nf(x[1])
            return True, f
        raise ValueError(tag)

    changed = True
    while changed:
        changed = False
        for k, rhs in G.items():
            n_, f = nf(rhs)
            if n_ != nullable[k] or f != first[k]:
                nullable[k], first[k] = n_, f
                changed = True
    return nullable, first


NULLABLE, FIRST = _nullable_first()


if __name__ == "__main__":
    import sys
    for k in ("Value", "Type", "Statement", "RangePiece", "ClassRef", "ParentClassList", "ArgValueList"):
        print(k, NULLABLE[k], sorted(FIRST[k])[:12], len(FIRST[k]))
    print(recognise("Class Id Less Int Id Greater Colon Id Less Id Comma IntVal Greater Semi".split()))
    print(recognise("Class Id Colon Semi".split()))
