#!/usr/bin/env python3
"""Driver for the solver-based checks (Kani/CBMC) of tablegen-lsp.

Every run: copy /repo's working tree to a scratch directory, inject the
harness child modules from /verif/harness, run `cargo kani` (CBMC decides),
parse the per-harness verdicts, replay counterexamples natively, write the
evidence file.  Exit 0 = held, 1 = VIOLATION (replayed), 2 = inconclusive.
"""
import fcntl
import json
import os
import re
import shutil
import subprocess
import sys
import time

VERIF = os.path.dirname(os.path.dirname(os.path.abspath(__file__)))
REPO = os.environ.get("VERIF_REPO", "/repo")
import hashlib  # noqa: E402
SCRATCH = os.environ.get("VERIF_SCRATCH") or os.path.join(
    "/var/tmp/tgl-verif", hashlib.sha1(VERIF.encode()).hexdigest()[:8])
CACHE = os.environ.get("VERIF_CACHE", os.path.join(VERIF, ".cache"))
NCPU = os.cpu_count() or 4

sys.path.insert(0, os.path.join(VERIF, "lib"))


def log(*a):
    print(*a, file=sys.stderr, flush=True)


def sh(cmd, **kw):
    return subprocess.run(cmd, shell=isinstance(cmd, str), **kw)


# --------------------------------------------------------------------------
# workspace preparation


class Inconclusive(Exception):
    pass


def prep_ws(tag):
    """Fresh copy of /repo's working tree (no target/, no .git)."""
    root = os.path.join(SCRATCH, tag)
    ws = os.path.join(root, "ws")
    os.makedirs(root, exist_ok=True)
    lock = open(os.path.join(root, ".lock"), "w")
    fcntl.flock(lock, fcntl.LOCK_EX)
    if os.path.exists(ws):
        shutil.rmtree(ws)
    r = sh(["rsync", "-a", "--exclude", "target", "--exclude", ".git",
            "--exclude", "vscode", "--exclude", "images", REPO + "/", ws + "/"])
    if r.returncode != 0:
        raise Inconclusive("rsync of /repo failed")
    os.makedirs(os.path.join(ws, ".cargo"), exist_ok=True)
    with open(os.path.join(ws, ".cargo", "config.toml"), "w") as f:
        f.write("[net]\noffline = true\n")
    return root, ws, lock


def append_mod(ws, module_file, mod_name, src_path):
    """Append `#[cfg(kani)] #[path=..] mod <name>;` to a module of the copy."""
    mf = os.path.join(ws, module_file)
    if not os.path.exists(mf):
        raise Inconclusive(f"anchor file {module_file} is gone")
    hdir = os.path.join(ws, "verif_h")
    os.makedirs(hdir, exist_ok=True)
    dst = os.path.join(hdir, os.path.basename(src_path))
    shutil.copyfile(src_path, dst)
    with open(mf, "a") as f:
        f.write(f'\n#[cfg(kani)]\n#[path = "{dst}"]\npub(crate) mod {mod_name};\n')


def regex_patch(ws, file, pattern, repl, what):
    p = os.path.join(ws, file)
    s = open(p).read()
    s2, n = re.subn(pattern, repl, s, count=1, flags=re.M)
    if n != 1:
        raise Inconclusive(f"anchor for '{what}' not found in {file}")
    open(p, "w").write(s2)


def load_known_findings():
    p = os.path.join(VERIF, "known_findings.json")
    if not os.path.exists(p):
        return {"findings": [], "fixed": []}
    return json.load(open(p))


def write_kf_module(ws, crate_lib, all_ids):
    """Generate consts: for every finding id known to the harnesses, whether it
    is listed (suppressed) in known_findings.json."""
    kf = load_known_findings()
    listed = {f["id"] for f in kf.get("findings", [])}
    lines = ["#[cfg(kani)]", "#[allow(dead_code)]", "pub mod verif_kf {"]
    for i in sorted(all_ids):
        lines.append(f"    pub const {i}: bool = {'true' if i in listed else 'false'};")
    lines.append("}")
    with open(os.path.join(ws, crate_lib), "a") as f:
        f.write("\n" + "\n".join(lines) + "\n")
    return listed


# --------------------------------------------------------------------------
# running kani

RE_HARNESS = re.compile(r"^Checking harness ([\w:]+)\.\.\.", re.M)


def run_kani(ws, package, harnesses, target_dir, log_path, timeout_s, mem_gb=20,
             jobs=1, extra=None, env_extra=None):
    """One cargo-kani process over the given harness names (exact)."""
    # --no-assertion-reach-checks: kani's per-assertion reachability covers make CBMC emit a
    # full JSON trace each (measured 381 MB / 60 s of a 76 s run); vacuity is guarded by the
    # explicit kani::cover! witnesses instead
    cmd = ["cargo", "kani", "-p", package, "-Z", "stubbing", "-Z", "unstable-options",
           "--no-assertion-reach-checks", "--exact"]
    for h in harnesses:
        cmd += ["--harness", h]
    if jobs > 1:
        cmd += ["-j", str(jobs), "--output-format", "terse"]
    cmd += ["--target-dir", target_dir]
    if extra:
        cmd += extra
    env = dict(os.environ)
    env["CARGO_NET_OFFLINE"] = "true"
    env.pop("RUSTUP_TOOLCHAIN", None)
    if env_extra:
        env.update(env_extra)
    kb = mem_gb * 1024 * 1024
    full = f"ulimit -v {kb}; exec timeout -k 10 {timeout_s} " + " ".join(
        "'" + c.replace("'", "'\\''") + "'" for c in cmd)
    t0 = time.time()
    with open(log_path, "wb") as lf:
        r = subprocess.run(["bash", "-c", full], cwd=ws, stdout=lf, stderr=subprocess.STDOUT, env=env)
    return r.returncode, time.time() - t0


def parse_kani_log(path):
    """-> {harness: {status, checks_failed:[...], covers:{desc:status}, n_checks, solver_s, ...}}"""
    txt = open(path, "rb").read().replace(b"\x00", b"").decode("utf-8", "replace")
    out = {}
    # split into per-harness blocks
    parts = re.split(r"^(?:Thread \d+: )?Checking harness ([\w:]+)\.\.\.\s*$", txt, flags=re.M)
    pre = parts[0]
    meta = {"compile_error": None}
    if re.search(r"^error(\[E\d+\])?:", pre, re.M) or "could not compile" in txt:
        m = re.search(r"^error.*?(?=^\s*$)", txt, re.M | re.S)
        meta["compile_error"] = (m.group(0) if m else "compile error")[:4000]
    for i in range(1, len(parts), 2):
        name = parts[i]
        body = parts[i + 1]
        h = {"status": "UNKNOWN", "failed": [], "covers": {}, "n_checks": 0, "n_failed": 0,
             "solver_s": 0.0, "verif_s": None, "vars": None, "clauses": None, "stubs": [],
             "unwind_failed": False, "unsupported": False}
        for m in re.finditer(r"^\s*- Stub: (.+?) -> (.+?)\s*$", body, re.M):
            h["stubs"].append((m.group(1), m.group(2)))
        for m in re.finditer(
                r"^Check \d+: (.+?)\n\s*- Status: (\w+)\n\s*- Description: \"(.*?)\"\n(?:\s*- Location: (.*?)\n)?",
                body, re.M):
            cid, status, desc, loc = m.group(1), m.group(2), m.group(3), m.group(4) or ""
            if ".cover." in cid or status in ("SATISFIED", "UNSATISFIABLE"):
                h["covers"][desc] = status
                continue
            h["n_checks"] += 1
            if status == "FAILURE":
                h["n_failed"] += 1
                h["failed"].append({"id": cid, "desc": desc, "loc": loc})
                if "unwinding assertion" in desc or ".unwind." in cid:
                    h["unwind_failed"] = True
            if status in ("UNDETERMINED",):
                h.setdefault("undetermined", 0)
                h["undetermined"] += 1
        m = re.search(r"^VERIFICATION:- (\w+)", body, re.M)
        if m:
            h["status"] = m.group(1)
        m = re.search(r"^Verification Time: ([\d.]+)s", body, re.M)
        if m:
            h["verif_s"] = float(m.group(1))
        for m in re.finditer(r"Runtime Solver: ([\d.e+-]+)s", body):
            h["solver_s"] += float(m.group(1))
        for m in re.finditer(r"Runtime decision procedure: ([\d.e+-]+)s", body):
            h["decision_s"] = float(m.group(1))
        m = re.search(r"(\d+) variables, (\d+) clauses", body)
        if m:
            h["vars"], h["clauses"] = int(m.group(1)), int(m.group(2))
        m = re.search(r"Runtime Symex: ([\d.e+-]+)s", body)
        if m:
            h["symex_s"] = float(m.group(1))
        m = re.search(r"size of program expression: (\d+) steps", body)
        if m:
            h["steps"] = int(m.group(1))
        if re.search(r"unsupported|not currently supported by Kani", body, re.I) and h["status"] == "FAILED":
            if any("unsupported" in f["desc"].lower() or "not currently supported" in f["desc"].lower()
                   for f in h["failed"]):
                h["unsupported"] = True
        if ("CBMC failed" in body or "Status: ERROR" in body or "std::bad_alloc" in body) and not h["failed"]:
            h["status"] = "ERROR"
        elif "Status: ERROR" in body and h["failed"]:
            h["status"] = "FAILED"
            h["partial_errors"] = body.count("Status: ERROR")
        out[name.split("::")[-1]] = h
    return out, meta, txt


# --------------------------------------------------------------------------
# workspace assembly

from registry import INJECT, KF_IDS, MODPATH, PACKAGE_OF, PATCHES, plan_for  # noqa: E402


def harness_index():
    """harness fn name -> (crate key, fully qualified name), by scanning the harness sources"""
    idx = {}
    for crate, items in INJECT.items():
        for hf, mf, mn in items:
            src = os.path.join(VERIF, hf)
            if not os.path.exists(src):
                continue
            txt = open(src).read()
            names = set(re.findall(r"\bfn (c\d\d\w*)\s*\(", txt))
            names |= set(re.findall(r"_harness!\(\s*(c\d\d\w*)\s*,", txt))
            base = MODPATH[mf]
            for n in names:
                idx[n] = (crate, (base + "::" if base else "") + mn + "::" + n)
            if mn == "verif_rules_h":
                import gen_rules
                for (uname, *_rest) in gen_rules.UNITS:
                    for n in ("c04c02_unit_" + uname, "c04_gen_" + uname):
                        idx[n] = (crate, base + "::" + mn + "::gen::" + n)
    return idx


def gen_completion_tables(ws):
    """run the REAL Analysis::completion natively (four contexts) and compile the offered
    labels into the syntax-crate harness as constants (module verif_completion_gen)"""
    binp = build_native(ws)
    r = subprocess.run([binp, "completion-dump"], stdout=subprocess.PIPE, stderr=subprocess.PIPE, timeout=120)
    if r.returncode != 0:
        raise Inconclusive("completion-dump failed: " + r.stderr.decode("utf-8", "replace")[-500:])
    d = json.loads(r.stdout.decode())
    strip = lambda xs: sorted({x.split(":", 1)[1] for x in xs})
    # operators offered after `!` per context (end of value / in front of letters / nested):
    # BANG = offered in SOME context (for offered => lexed), BANG_ALL = offered in EVERY
    # context (for lexed => offered)
    per_ctx = [set(strip(d[c])) - set(strip(d[c + "_base"])) for c in ("bang", "bang2", "bang3")]
    bang = sorted(set.union(*per_ctx))
    bang_all = sorted(set.intersection(*per_ctx))
    tables = {"BANG": bang, "BANG_ALL": bang_all, "TOPLEVEL": strip(d["toplevel"]), "TYPES": strip(d["type"]),
              "VALUES": strip(d["value"])}
    kf = load_known_findings()
    for f in kf.get("findings", []):
        if f["id"] in ("C20_BANG_OFFERED_NOT_LEXED", "C20_BANG_LEXED_NOT_OFFERED"):
            tables["KF_" + f["id"]] = sorted(f.get("inputs", []))
    for k in ("KF_C20_BANG_OFFERED_NOT_LEXED", "KF_C20_BANG_LEXED_NOT_OFFERED"):
        tables.setdefault(k, [])
    lines = ["// generated at run time from the real Analysis::completion + known_findings.json",
             "#![allow(dead_code)]"]
    for k, v in tables.items():
        items = ", ".join('b"%s"' % x.replace("\\", "\\\\").replace('"', '\\"') for x in v)
        lines.append(f"pub const {k}: &[&[u8]] = &[{items}];")
        pats = " | ".join('b"%s"' % x for x in v) or 'b"\\x00never"'
        lines.append(f"pub fn in_{k.lower()}(w: &[u8]) -> bool {{ matches!(w, {pats}) }}")
    hdir = os.path.join(ws, "verif_h")
    os.makedirs(hdir, exist_ok=True)
    dst = os.path.join(hdir, "completion_gen.rs")
    open(dst, "w").write("\n".join(lines) + "\n")
    with open(os.path.join(ws, "crates/syntax/src/lib.rs"), "a") as f:
        f.write(f'\n#[cfg(kani)]\n#[path = "{dst}"]\npub(crate) mod verif_completion_gen;\n')
    return tables


def rename_raw_idents(ws):
    """kani's stub path resolver cannot name raw identifiers (r#let, r#if, r#assert, r#type):
    rename them in the scratch copy (purely textual, semantics preserving)."""
    files = ["crates/syntax/src/grammar.rs", "crates/syntax/src/grammar/statement.rs",
             "crates/syntax/src/grammar/value.rs", "crates/syntax/src/grammar/type.rs"]
    n = 0
    for f in files:
        pth = os.path.join(ws, f)
        if not os.path.exists(pth):
            raise Inconclusive(f"anchor file {f} is gone")
        t = open(pth).read()
        for a, b in (("r#type", "type_"), ("r#let", "let_"), ("r#if", "if_"), ("r#assert", "assert_")):
            n += t.count(a)
            t = t.replace(a, b)
        t = t.replace("pub mod type_;", '#[path = "grammar/type.rs"]\npub mod type_;')
        # the two private statement rules are made visible to the harness module
        t = t.replace("\nfn if_(", "\npub(super) fn if_(").replace("\nfn assert_(", "\npub(super) fn assert_(")
        open(pth, "w").write(t)
    if n == 0:
        raise Inconclusive("no raw identifiers found to rename (anchor changed)")


CURRENT_TIER = "quick"
PARTIAL_RUN = False


def assemble(ws, crates):
    listed = set()
    for crate in crates:
        for hf, mf, mn in INJECT[crate]:
            src = os.path.join(VERIF, hf)
            if os.path.exists(src):
                append_mod(ws, mf, mn, src)
        for (file, pattern, repl, what) in PATCHES.get(crate, []):
            regex_patch(ws, file, pattern, repl, what)
        if crate == "syntax":
            rename_raw_idents(ws)
            import gen_rules
            src, _names = gen_rules.gen(CURRENT_TIER)
            os.makedirs(os.path.join(ws, "verif_h"), exist_ok=True)
            open(os.path.join(ws, "verif_h", "rules_gen.rs"), "w").write(src)
        lib = {"syntax": "crates/syntax/src/lib.rs", "ide": "crates/ide/src/lib.rs",
               "lsp": "crates/lsp/src/lib.rs"}[crate]
        listed = write_kf_module(ws, lib, KF_IDS)
    return listed


# --------------------------------------------------------------------------
# scheduling: one cargo-kani process per harness, N worker slots, each slot
# with its own target dir (dependencies cached per slot)

import queue  # noqa: E402
import threading  # noqa: E402


def run_plan(ws, root, plan, idx, nslots, extra_args=None, tag="", batch=None):
    """plan: list of dict(name, timeout, mem_gb, weight). Returns {name: result}.
    Harnesses are verified in batches: one cargo-kani process (one compilation) per batch,
    the harnesses of a batch sequentially; a batch that dies is re-run harness by harness."""
    ordered = sorted(plan, key=lambda h: -h.get("weight", 10))
    if batch is None:
        batch = max(1, min(6, (len(ordered) + nslots - 1) // nslots))
    # deal round-robin so that heavy harnesses spread over batches
    nb = (len(ordered) + batch - 1) // batch
    batches = [[] for _ in range(nb)]
    for i, h in enumerate(ordered):
        batches[i % nb].append(h)
    q = queue.Queue()
    for bch in batches:
        q.put(bch)
    results = {}
    lock = threading.Lock()
    logs = os.path.join(root, "logs" + tag)
    os.makedirs(logs, exist_ok=True)

    def worker(slot):
        while True:
            try:
                bch = q.get_nowait()
            except queue.Empty:
                return
            crate = idx[bch[0]["name"]][0]
            same = [h for h in bch if idx[h["name"]][0] == crate]
            rest = [h for h in bch if idx[h["name"]][0] != crate]
            if rest:
                q.put(rest)
            td = os.path.join(CACHE, "kt", f"{crate}-{slot}")
            os.makedirs(td, exist_ok=True)
            lp = os.path.join(logs, same[0]["name"] + (f"+{len(same) - 1}" if len(same) > 1 else "") + ".log")
            fqs = [idx[h["name"]][1] for h in same]
            tmo = sum(h.get("timeout", 900) for h in same) * (4 if CURRENT_TIER == "thorough" else 1)
            rc, wall = run_kani(ws, PACKAGE_OF[crate], fqs, td, lp, tmo,
                                mem_gb=max(h.get("mem_gb", 16) for h in same), extra=extra_args)
            res, meta, txt = parse_kani_log(lp)
            missing = []
            for h in same:
                r = res.get(h["name"])
                if r is None:
                    missing.append(h)
                    continue
                r["rc"] = rc
                r["wall_s"] = r.get("verif_s") or round(wall, 1)
                r["log"] = lp
                r["compile_error"] = None
                if r["status"] == "UNKNOWN" and rc in (124, 137):
                    r["status"] = "TIMEOUT"
                with lock:
                    results[h["name"]] = r
                log(f"  [{slot}] {h['name']}: {r['status']} ({r['wall_s']}s, {r['n_checks']} checks, "
                    f"{r['n_failed']} failed)")
            if missing:
                if len(same) > 1 and not meta["compile_error"]:
                    for h in missing:     # the batch died: retry one by one
                        q.put([h])
                else:
                    for h in missing:
                        r = {"status": "TIMEOUT" if rc in (124, 137) else "UNKNOWN", "failed": [], "covers": {},
                             "n_checks": 0, "n_failed": 0, "solver_s": 0.0, "stubs": [], "rc": rc,
                             "wall_s": round(wall, 1), "log": lp, "compile_error": meta["compile_error"]}
                        with lock:
                            results[h["name"]] = r
                        log(f"  [{slot}] {h['name']}: {r['status']} (rc {rc}, {wall:.0f}s)")

    threads = [threading.Thread(target=worker, args=(i,)) for i in range(nslots)]
    for t in threads:
        t.start()
    for t in threads:
        t.join()
    # second chance: a harness that ran out of memory or time while 12 processes shared the
    # machine is re-run alone with a larger memory cap before it is called inconclusive
    if tag == "":
        again = [h for h in plan if results.get(h["name"], {}).get("status") in ("ERROR", "TIMEOUT", "UNKNOWN")
                 and not results.get(h["name"], {}).get("compile_error")]
        for h in again[:8]:
            log(f"  retry alone: {h['name']}")
            h2 = dict(h)
            h2["mem_gb"] = 44
            h2["timeout"] = min(h.get("timeout", 900), 600)
            r2 = run_plan(ws, root, [h2], idx, 1, extra_args=extra_args, tag="-retry", batch=1)
            if r2.get(h["name"], {}).get("status") in ("SUCCESSFUL", "FAILED"):
                results[h["name"]] = r2[h["name"]]
            elif h.get("fallback"):
                # the query at the registered bound is out of reach on this tree: a smaller bound
                # can still return a (short) counterexample; a pass at the smaller bound leaves
                # the registered bound undecided (inconclusive)
                from registry import by_name
                fb = by_name(h["fallback"])
                if fb:
                    log(f"  fallback bound: {fb['name']}")
                    r3 = run_plan(ws, root, [fb], idx, 1, extra_args=extra_args, tag="-fallback", batch=1)
                    rr = r3.get(fb["name"], {})
                    if rr.get("status") == "FAILED":
                        rr["via_fallback"] = fb["name"]
                        results[h["name"]] = rr
                        h["_fq_override"] = fb["name"]
    return results


# --------------------------------------------------------------------------
# concrete playback = native replay of the real code (no stubs)

RE_PLAYBACK = re.compile(r"^```\n(.*?)\n```$", re.S | re.M)


def extract_playbacks(txt):
    """-> [(test fn name, check kind, check description, test source)]"""
    out = []
    for m in RE_PLAYBACK.finditer(txt):
        blk = m.group(1)
        fm = re.search(r"fn (kani_concrete_playback_\w+)\(\)", blk)
        if not fm:
            continue
        cm = re.search(r"/// Check for `([\w-]+)`: \"(.*)\"", blk)
        kind, desc = (cm.group(1), cm.group(2)) if cm else ("?", "")
        src = blk[blk.index("#[test]"):]
        out.append((fm.group(1), kind, desc, src))
    return out


def decode_vals(test_src):
    vals = []
    for m in re.finditer(r"vec!\[([\d,\s]*)\]", test_src):
        body = m.group(1).strip()
        if "vec!" in body:
            continue
        vals.append([int(x) for x in body.split(",") if x.strip()])
    return vals


def native_replay(ws, root, crate, fq, hname, harness_file_in_ws, hang_is_repro=False):
    """Re-run the failing harness with concrete playback, append the generated
    unit test(s) for the FAILED checks to the harness module of the scratch copy
    and run them natively with `cargo kani playback` (real code, kani stubs are
    not applied).  -> (reproduced: bool|None, details)"""
    td = os.path.join(CACHE, "kt", f"{crate}-replay")
    lp = os.path.join(root, f"playback-{hname}.log")
    rc, wall = run_kani(ws, PACKAGE_OF[crate], [fq], td, lp, 1800, mem_gb=20,
                        extra=["-Z", "concrete-playback", "--concrete-playback=print"])
    txt = open(lp, "rb").read().replace(b"\x00", b"").decode("utf-8", "replace")
    seen = set()
    pbs = []
    existing = open(harness_file_in_ws).read()
    for pb in extract_playbacks(txt):
        if pb[1] == "cover" or pb[0] in seen or ("fn " + pb[0] + "(") in existing:
            continue
        seen.add(pb[0])
        pbs.append(pb)
    if not pbs:
        return None, {"reason": "kani produced no concrete playback test for a failed check", "log": lp}
    with open(harness_file_in_ws, "a") as f:
        f.write("\n// ---- concrete playback tests generated by kani ----\n")
        for name, kind, desc, src in pbs:
            f.write(src + "\n")
    out = {"tests": [], "log": lp}
    reproduced = False
    env = dict(os.environ)
    env["CARGO_NET_OFFLINE"] = "true"
    for name, kind, desc, src in pbs:
        cmd = ["cargo", "kani", "playback", "-Z", "concrete-playback", "-p", PACKAGE_OF[crate],
               "--", name]
        hung = False
        try:
            # build first (not timed), then run the single test under a watchdog
            subprocess.run(cmd[:-2] + ["--only-codegen"] if False else ["true"], cwd=ws, env=env,
                           stdout=subprocess.PIPE, stderr=subprocess.STDOUT)
            r = subprocess.run(cmd, cwd=ws, env=env, stdout=subprocess.PIPE, stderr=subprocess.STDOUT,
                               timeout=600)
            o = r.stdout.decode("utf-8", "replace")
        except subprocess.TimeoutExpired as te:
            o = (te.stdout or b"").decode("utf-8", "replace") + "\nTIMEOUT"
            hung = "running 1 test" in o
        failed = bool(re.search(r"test result: FAILED|panicked at", o)) or (hung and hang_is_repro)
        passed = bool(re.search(r"test result: ok\. [1-9]", o))
        m = re.search(r"panicked at (.*?)\n(.*?)\n", o)
        out["tests"].append({"name": name, "check": f"{kind}: {desc}", "native_failed": failed, "native_hang": hung,
                             "native_passed": passed,
                             "panic": (m.group(1) + " " + m.group(2))[:400] if m else None,
                             "vals": decode_vals(src), "test_source": src})
        if not failed and not passed:
            out["tests"][-1]["output_tail"] = o[-1500:]
        if failed:
            reproduced = True
    return reproduced, out


# --------------------------------------------------------------------------
# native helper (real code, no stubs): built against the scratch copy

def build_native(ws):
    """-> path of the verif_native binary built against the scratch copy `ws`"""
    nd = os.path.join(ws, "verif_native")
    if os.path.exists(nd):
        shutil.rmtree(nd)
    shutil.copytree(os.path.join(VERIF, "native"), nd)
    t = open(os.path.join(nd, "Cargo.toml.in")).read().replace("@WS@", ws)
    open(os.path.join(nd, "Cargo.toml"), "w").write(t)
    shutil.copyfile(os.path.join(ws, "Cargo.lock"), os.path.join(nd, "Cargo.lock"))
    os.makedirs(os.path.join(nd, ".cargo"), exist_ok=True)
    open(os.path.join(nd, ".cargo", "config.toml"), "w").write("[net]\noffline = true\n")
    td = os.path.join(CACHE, "native-target")
    env = dict(os.environ)
    env["CARGO_NET_OFFLINE"] = "true"
    env.pop("RUSTUP_TOOLCHAIN", None)
    lockf = open(os.path.join(CACHE, "native.lock"), "w") if os.path.isdir(CACHE) or not os.makedirs(CACHE, exist_ok=True) else None
    fcntl.flock(lockf, fcntl.LOCK_EX)
    try:
        r = subprocess.run(["cargo", "build", "--offline", "--release", "--target-dir", td], cwd=nd, env=env,
                           stdout=subprocess.PIPE, stderr=subprocess.STDOUT)
        if r.returncode != 0:
            raise Inconclusive("native helper does not build against this tree: " +
                               r.stdout.decode("utf-8", "replace")[-1500:])
        dst = os.path.join(nd, "verif_native.bin")
        shutil.copyfile(os.path.join(td, "release", "verif_native"), dst)
        os.chmod(dst, 0o755)
    finally:
        fcntl.flock(lockf, fcntl.LOCK_UN)
    return dst


def native_parse_props(binpath, texts, max_hangs=3):
    """real syntax::parse on concrete texts (batched through stdin) -> list of result dicts,
    one per text; a hang ends the helper process, which is restarted on the remaining texts.
    Every hang costs the watchdog time, so the enumeration stops after `max_hangs` hangs (the
    results so far are returned)."""
    out = []
    i = 0
    hangs = 0
    while i < len(texts):
        if hangs >= max_hangs:
            break
        chunk = texts[i:]
        inp = "\n".join("h:" + t.encode("utf-8").hex() for t in chunk) + "\n"
        try:
            r = subprocess.run([binpath, "parse-props"], input=inp.encode(), stdout=subprocess.PIPE,
                               stderr=subprocess.PIPE, timeout=600)
            lines = [l for l in r.stdout.decode("utf-8", "replace").splitlines() if l.strip()]
        except subprocess.TimeoutExpired:
            lines = []
        got = 0
        for l in lines:
            try:
                out.append(json.loads(l))
            except Exception:
                out.append({"text": chunk[got], "crashed": True})
            got += 1
        if out and out[-1].get("hang"):
            hangs += 1
        if got < len(chunk):
            last = out[-1] if out else {}
            if not (got > 0 and last.get("hang")):
                # the helper died on text chunk[got] (abort / stack overflow)
                out.append({"text": chunk[got], "crashed": True})
                got += 1
        i += got
    return out


def get_playback_vals(ws, root, crate, fq, hname):
    """concrete values (kani::any() order) for every failed check of the harness"""
    td = os.path.join(CACHE, "kt", f"{crate}-replay")
    lp = os.path.join(root, f"playback-{hname}.log")
    run_kani(ws, PACKAGE_OF[crate], [fq], td, lp, 1800, mem_gb=20,
             extra=["-Z", "concrete-playback", "--concrete-playback=print"])
    txt = open(lp, "rb").read().replace(b"\x00", b"").decode("utf-8", "replace")
    out = []
    for name, kind, desc, src in extract_playbacks(txt):
        if kind == "cover":
            continue
        out.append({"check": f"{kind}: {desc}", "vals": decode_vals(src)})
    return out, lp


def replay_parse(prop_oracle, decoder):
    """custom native replay for parser-level harnesses (ghost stubs make kani's own
    playback meaningless): realise the counterexample's token kinds as text and check the
    property on the real syntax::parse."""
    def run(ws, root, h, r, fails, crate, fq):
        import realise
        pbs, lp = get_playback_vals(ws, root, crate, fq, h["name"])
        names = realise.kind_names(ws)
        texts = []
        for pb in pbs:
            for kinds in decoder(pb["vals"]):
                ks = [names[k] if k < len(names) else "Error" for k in kinds]
                variants = realise.ERROR_VARIANTS if "Error" in ks else [None]
                for ev in variants:
                    for sep in (" ", "", "\n"):
                        t = realise.realise(ks, sep=sep, error_lexeme=ev)
                        if t not in texts:
                            texts.append(t)
                        if ("x " + t) not in texts:
                            texts.append("x " + t)
        derived = len(texts)
        texts += [b for b in realise.BATTERY if b not in texts]
        binp = build_native(ws)
        res = native_parse_props(binp, texts)
        bad = []
        for i, x in enumerate(res):
            why = prop_oracle(x)
            if why:
                bad.append({"text": x.get("text"), "why": why, "from_counterexample": i < derived, "result": x})
        return (len(bad) > 0), {"counterexamples": pbs[:5], "texts_tried": texts, "native_failures": bad[:10],
                                "log": lp}
    return run


def oracle_c01(x):
    if x.get("hang") or x.get("panicked") or x.get("crashed"):
        return None
    if not x.get("lossless", True):
        return "tree text != input (not lossless)"
    if not x.get("ranges_ok", True):
        return "token ranges do not equal the positions of their text"
    return None


def oracle_c02(x):
    if x.get("hang"):
        return "parse did not return within the watchdog"
    if x.get("panicked") or x.get("crashed"):
        return "parse panicked"
    if not x.get("errors_ok", True):
        return "syntax error with empty message or range outside the text / off char boundary"
    return None


def make_oracle_c04(listed):
    import grammar
    g = grammar.grammar_with_known(listed)

    def oracle(x):
        if x.get("hang") or x.get("panicked") or x.get("crashed") or "tokens" not in x:
            return None
        ks = grammar.kinds_from_tree_tokens(x["tokens"])
        if ks is None:
            return None
        ks = [k for k in ks if k != "Eof"]
        der = grammar.recognise(ks, g=g)
        clean = x["n_errors"] == 0
        if der and not clean:
            return "derivable from the documented grammar but syntax errors are reported: " + \
                "; ".join(str(e[2]) for e in x["errors"][:2])
        if clean and not der:
            return "not derivable from the documented grammar but parses with zero syntax errors"
        return None
    return oracle


def replay_l2(ws, root, h, r, fails, crate, fq, prop="C04", no_playback=False):
    """native confirmation of an L2 unit counterexample: concrete texts around the solver's
    token kinds, run through the real parser and judged by the property-level oracle"""
    import realise, gen_rules
    pbs, lp = ([], None) if no_playback else get_playback_vals(ws, root, crate, fq, h["name"])
    names = realise.kind_names(ws)
    unit = h.get("unit")
    units = {u[0]: u for u in gen_rules.UNITS}
    gen = h["name"].startswith("c04_gen_")
    texts = []
    cexs = []
    for pb in pbs:
        v = pb["vals"]
        try:
            off = 0
            if gen:
                n = int.from_bytes(bytes(v[0]), "little")
                off = 1
            else:
                n = units[unit][4]
                if CURRENT_TIER == "thorough":
                    n = min(7, n + 2)
            kinds = [names[v[off + 3 * i][0]] for i in range(n)]
        except Exception:
            continue
        first = units[unit][5]
        if first and kinds:
            kinds[0] = first
        if kinds not in cexs:
            cexs.append(kinds)
            texts += realise.candidates(kinds, unit)
    # ... and the small sentence space of the unit itself: every sequence of <= 6 symbols over
    # the terminals of the rule and a minimal sentence per callee, in the unit's context
    u = units[unit]
    boundary = set()
    for c in u[3]:
        if gen_rules.CALLEES[c][1] == "stmtlist":
            boundary |= set(gen_rules.STMTLIST_NTS)
        else:
            boundary.add(gen_rules.callee_nt(c))
    _s, _e, _t, classes, _n = gen_rules.compile_unit(u[2], boundary)
    texts += realise.enumerate_unit(unit, classes, maxlen=min(6, u[4] + 1))
    texts = list(dict.fromkeys(texts))
    binp = build_native(ws)
    listed = {f["id"] for f in load_known_findings().get("findings", [])}
    oracle = make_oracle_c04(listed) if prop == "C04" else oracle_c02
    bad = []
    B = 4000
    for j in range(0, len(texts), B):
        res = native_parse_props(binp, texts[j:j + B])
        for x in res:
            why = oracle(x)
            if why:
                bad.append({"text": x.get("text"), "why": why})
        if bad:
            break
    return (len(bad) > 0), {"counterexample_kinds": cexs[:5], "texts_tried": len(texts),
                            "native_failures": bad[:10], "log": lp}


TABLE_UNITS = ["body_item", "body", "field_def", "arg_value_list", "class_ref", "slice_element", "def", "defm",
               "identifier_or_class_value", "type", "simple_value", "dag", "range_piece", "template_arg_decl"]


def replay_tables(ws, root, h, r, fails, crate, fq):
    """a constant token table (VALUE_START / TYPE_FIRST_TOKENS / RECOVER_TOKENS) no longer equals
    its summary: confirm natively on the sentence spaces of the units that consult the tables"""
    import realise, gen_rules
    binp = build_native(ws)
    listed = {f["id"] for f in load_known_findings().get("findings", [])}
    o4 = make_oracle_c04(listed)
    bad = []
    texts0 = realise.first_set_battery(gen_rules.FIRST["Type"], gen_rules.FIRST["Value"])
    tried = len(texts0)
    for x in native_parse_props(binp, texts0):
        why = o4(x) or oracle_c02(x)
        if why:
            bad.append({"text": x.get("text"), "why": why, "unit": "first-set battery"})
    for u in gen_rules.UNITS:
        if bad:
            break
        if u[0] not in TABLE_UNITS:
            continue
        boundary = set()
        for c in u[3]:
            if gen_rules.CALLEES[c][1] == "stmtlist":
                boundary |= set(gen_rules.STMTLIST_NTS)
            else:
                boundary.add(gen_rules.callee_nt(c))
        _s, _e, _t, classes, _n = gen_rules.compile_unit(u[2], boundary)
        texts = realise.enumerate_unit(u[0], classes, maxlen=min(5, u[4] + 1), limit=20000)
        tried += len(texts)
        for x in native_parse_props(binp, texts):
            why = o4(x) or oracle_c02(x)
            if why:
                bad.append({"text": x.get("text"), "why": why, "unit": u[0]})
        if bad:
            break
    return (len(bad) > 0), {"texts_tried": tried, "native_failures": bad[:10]}


def oracle_c01c02(x):
    return oracle_c01(x) or oracle_c02(x)


def decode_l1(vals):
    """L1 harness: n, then (kind, width, name) per token"""
    try:
        n = int.from_bytes(bytes(vals[0]), "little")
        if n > 8:
            return []
        kinds = [vals[1 + 3 * i][0] for i in range(n)]
        return [kinds]
    except Exception:
        return []


def enumerate_texts(alphabet, maxlen, prefix="", suffix="", limit=200000):
    import itertools
    n = 0
    for L in range(0, maxlen + 1):
        for combo in itertools.product(alphabet, repeat=L):
            yield prefix + "".join(combo) + suffix
            n += 1
            if n >= limit:
                return


LEX_ALPHABET = ["/", "*", "a", " ", "\n", "\"", "\\", "[", "{", "}", "]", "#", "!", "0", "x", "b", "$", "-", ".", "1"]
PP_ALPHABET = ["#ifdef ", "#ifndef ", "#else\n", "#endif\n", "#define ", "M ", "; "]


def replay_search(oracle, alphabet, maxlen, prefix="", suffix=""):
    """native confirmation for failures kani cannot play back (unwinding assertions): search
    the small input space the harness quantifies over, on the real syntax::parse"""
    def run(ws, root, h, r, fails, crate, fq):
        binp = build_native(ws)
        texts = list(enumerate_texts(alphabet, maxlen, prefix, suffix))
        bad = []
        B = 5000
        for j in range(0, len(texts), B):
            res = native_parse_props(binp, texts[j:j + B])
            for x in res:
                why = oracle(x)
                if why:
                    bad.append({"text": x.get("text"), "why": why, "result": x})
            if bad:
                break
        return (len(bad) > 0), {"searched": len(texts), "native_failures": bad[:5]}
    return run


# --------------------------------------------------------------------------
# main check flow

def functions_in_log(path):
    txt = open(path, "rb").read().replace(b"\x00", b"").decode("utf-8", "replace")
    fns = set()
    for m in re.finditer(r"^Check \d+: (\S+?)\.(?:assertion|cover|unwind|overflow|pointer_dereference|"
                         r"arithmetic_overflow|division-by-zero|bounds|unsupported_construct|"
                         r"precondition|safety_check|array_bounds|enum-range-check|NaN|"
                         r"pointer_arithmetic|pointer|undefined-shift|unreachable|bad-dynamic-cast|"
                         r"enum_range_check|[\w-]+)\.\d+\s*$", txt, re.M):
        fns.add(m.group(1))
    return fns


REPLAYS = {
    "l1": replay_parse(oracle_c01c02, decode_l1),
    "pp_hang": replay_search(oracle_c02, PP_ALPHABET, 6),
    "lex_hang": replay_search(oracle_c02, LEX_ALPHABET, 4),
    "l2": replay_l2,
    "tables": replay_tables,
}


def check(prop, tier, only=None, seed=0):
    global CURRENT_TIER, PARTIAL_RUN
    CURRENT_TIER = tier
    PARTIAL_RUN = bool(only)
    t0 = time.time()
    plan = plan_for(prop, tier)
    if only:
        plan = [h for h in plan if h["name"] in only]
    if not plan:
        log(f"no harness registered for {prop}")
        return 2
    idx = harness_index()
    crates = sorted({idx[h["name"]][0] for h in plan})
    root, ws, lock = prep_ws(prop)
    exit_code = 0
    notes = []
    try:
        listed = assemble(ws, crates)
        gen = None
        if "syntax" in crates:
            if any(h.get("needs_completion") for h in plan):
                gen = gen_completion_tables(ws)
            else:
                hdir = os.path.join(ws, "verif_h")
                dst = os.path.join(hdir, "completion_gen.rs")
                open(dst, "w").write("".join(
                    f"pub const {k}: &[&[u8]] = &[];\npub fn in_{k.lower()}(_w: &[u8]) -> bool {{ false }}\n" for k in (
                    "BANG", "BANG_ALL", "TOPLEVEL", "TYPES", "VALUES", "KF_C20_BANG_OFFERED_NOT_LEXED",
                    "KF_C20_BANG_LEXED_NOT_OFFERED")))
                with open(os.path.join(ws, "crates/syntax/src/lib.rs"), "a") as f:
                    f.write(f'\n#[cfg(kani)]\n#[allow(dead_code)]\n#[path = "{dst}"]\npub(crate) mod verif_completion_gen;\n')
        import random
        rnd = random.Random(seed)
        rnd.shuffle(plan)
        nslots = int(os.environ.get("VERIF_JOBS", str(min(NCPU, 12))))
        nslots = max(1, min(nslots, len(plan)))
        log(f"{prop}/{tier}: {len(plan)} harnesses on {nslots} slots")
        results = run_plan(ws, root, plan, idx, nslots)
        violations = []
        inconclusive = []
        known = {}
        for h in plan:
            r = results[h["name"]]
            name = h["name"]
            if r.get("compile_error"):
                inconclusive.append((name, "harness does not compile against this tree: " +
                                     r["compile_error"][:300]))
                continue
            if r["status"] == "SUCCESSFUL":
                for d, st in r["covers"].items():
                    if d.startswith("W:") and st in ("UNREACHABLE", "UNSATISFIABLE") and h.get("allow_unreachable_w"):
                        continue
                    if d.startswith("W:") and st != "SATISFIED":
                        inconclusive.append((name, f"vacuity witness not satisfied: {d} ({st})"))
                    if d.startswith("KF:") and st == "SATISFIED":
                        known.setdefault(d[3:], []).append(name)
                expected_stubs = h.get("stubs", 0)
                if len(r["stubs"]) < expected_stubs:
                    inconclusive.append((name, f"only {len(r['stubs'])} of {expected_stubs} stubs confirmed"))
                continue
            if r["status"] == "FAILED":
                real_fail = [f for f in r["failed"] if "unwinding assertion" not in f["desc"]
                             and "unsupported" not in f["desc"].lower()
                             and "not currently supported" not in f["desc"].lower()]
                # an assertion labelled for another property only (e.g. "C15: ...") is not a
                # violation of the property being checked
                def for_prop(f):
                    m = re.match(r'^"?(C\d\d(?:[,/]C\d\d)*)[:/]', f["desc"])
                    return (not m) or (prop in re.split(r"[,/]", m.group(1)))
                other = [f for f in real_fail if not for_prop(f)]
                real_fail = [f for f in real_fail if for_prop(f)]
                if other and not real_fail and not r.get("unwind_failed"):
                    notes.append(f"{name}: only assertions of other properties failed: " +
                                 "; ".join(f["desc"] for f in other[:3]))
                    continue
                if not real_fail:
                    if r.get("unwind_failed") and h.get("unwind_is_violation") and prop == "C02":
                        real_fail = r["failed"]
                    else:
                        inconclusive.append((name, "only unwinding/unsupported-construct failures: " +
                                             "; ".join(f["desc"] for f in r["failed"][:3])))
                        continue
                violations.append((h, r, real_fail))
                continue
            inconclusive.append((name, f"kani status {r['status']} (rc {r.get('rc')}) see {r.get('log')}"))

        # ---- native replay of every candidate violation
        confirmed = []
        for h, r, fails in violations:
            crate, fq = idx[h.get("_fq_override") or h["name"]]
            hfile = None
            for hf, mf, mn in INJECT[crate]:
                if ("::" + mn + "::") in ("::" + fq):
                    hfile = os.path.join(ws, "verif_h", os.path.basename(hf))
            custom = h.get("replay")
            if all("unwinding assertion" in f["desc"] for f in fails) and h.get("unwind_replay"):
                custom = h["unwind_replay"]
                if custom == "l2":
                    # an unwinding failure has no kani playback: search the unit's sentence space
                    rep, det = replay_l2(ws, root, h, r, fails, crate, fq, prop="C02", no_playback=True)
                    custom = "done"
            if custom == "done":
                pass
            elif custom:
                if custom == "l2":
                    rep, det = replay_l2(ws, root, h, r, fails, crate, fq, prop=prop if prop in ("C04", "C02") else "C04")
                else:
                    rep, det = REPLAYS[custom](ws, root, h, r, fails, crate, fq)
            else:
                rep, det = native_replay(ws, root, crate, fq, h["name"], hfile,
                                         hang_is_repro=bool(h.get("unwind_is_violation")) and prop == "C02")
            os.makedirs(os.path.join(VERIF, "replays"), exist_ok=True)
            rp = os.path.join(VERIF, "replays", f"{prop}-{h['name']}.json")
            json.dump({"property": prop, "harness": h["name"], "fq": fq, "failed_checks": fails[:10],
                       "reproduced_natively": rep, "replay": det}, open(rp, "w"), indent=1)
            if rep:
                confirmed.append((h, fails, rp, det))
            else:
                inconclusive.append((h["name"], "solver counterexample did not reproduce natively "
                                     f"(stub/contract suspect), see {rp}"))

        for kid, hs in sorted(known.items()):
            kfe = [f for f in load_known_findings()["findings"] if f["id"] == kid]
            if kfe and kfe[0]["property"] == prop:
                print(f"KNOWN-FINDING: property={prop} {kid}: {kfe[0]['what']}")
        for h, fails, rp, det in confirmed:
            print(f"VIOLATION property={prop} replay={rp}")
            print(f"  harness {h['name']}: " + "; ".join(f["desc"] for f in fails[:3]))
        for n, why in inconclusive:
            print(f"INCONCLUSIVE {prop} {n}: {why}")
        if confirmed:
            exit_code = 1
        elif inconclusive:
            exit_code = 2
        write_evidence(prop, tier, seed, plan, results, known, confirmed, inconclusive,
                       time.time() - t0, listed, list(notes))
    except Inconclusive as e:
        print(f"INCONCLUSIVE {prop}: {e}")
        exit_code = 2
    finally:
        if not os.environ.get("VERIF_KEEP"):
            shutil.rmtree(ws, ignore_errors=True)
    return exit_code


def write_evidence(prop, tier, seed, plan, results, known, confirmed, inconclusive, wall, listed, notes=()):
    from registry import PROP_META
    meta = PROP_META.get(prop, {})
    n_checks = sum(r.get("n_checks", 0) for r in results.values())
    n_ok = sum(1 for r in results.values() if r.get("status") == "SUCCESSFUL")
    fns = set()
    samples = []
    stubs = set()
    for h in plan:
        r = results.get(h["name"], {})
        if r.get("log") and os.path.exists(r["log"]):
            fns |= functions_in_log(r["log"])
        for a, b in r.get("stubs", []):
            stubs.add(f"{a} -> {b}")
        samples.append({
            "harness": h["name"], "status": r.get("status"), "checks": r.get("n_checks"),
            "failed": r.get("n_failed"), "solver_s": r.get("solver_s"), "wall_s": r.get("wall_s"),
            "sat_vars": r.get("vars"), "sat_clauses": r.get("clauses"), "program_steps": r.get("steps"),
            "bound": h.get("bound", ""), "covers": r.get("covers", {}),
        })
    real_fns = sorted(f for f in fns if "verif_" not in f)
    ev = {
        "property_id": prop, "tier": tier, "seed": seed, "level": "model_checking",
        "coverage": {
            "evaluations": max(n_checks, 1),
            "distinct_nontrivial": n_ok,
            "rule": "evaluations = CBMC properties (assertions, unwinding assertions, overflow/bounds/"
                    "panic-freedom checks) decided over ALL symbolic inputs inside the bound; "
                    "distinct_nontrivial = harnesses whose verdict is SUCCESSFUL with every mandatory "
                    "vacuity witness (cover 'W:') SATISFIED. Each harness is one bounded-model-checking query "
                    "family over the real compiled code.",
            "samples": samples,
            "exhaustive": True,
            "harnesses_run": len(plan),
            "harnesses_successful": n_ok,
            "functions_encoded": real_fns[:400],
            "stubs": sorted(stubs),
            "solver_s_total": round(sum(r.get("solver_s", 0) or 0 for r in results.values()), 1),
            "bounds": meta.get("bounds", ""),
            "outside_bounds": meta.get("outside", ""),
            "known_findings_observed": sorted(known.keys()),
            "known_findings_listed": sorted(listed),
            "inconclusive": [f"{n}: {w}" for n, w in inconclusive],
            "notes": notes,
            "replays": [rp for _, _, rp, _ in confirmed],
            "engine": "Kani 0.68.0 / CBMC 6.11.0 / CaDiCaL; encoding regenerated from /repo working tree",
        },
        "assumptions": meta.get("assumptions", []),
        "wall_s": round(wall, 1),
        "violations": len(confirmed),
    }
    # partial (--only) and seed-test runs must not overwrite the evidence of the full check
    edir = os.environ.get("VERIF_EVIDENCE_DIR") or os.path.join(VERIF, "evidence")
    if PARTIAL_RUN and not os.environ.get("VERIF_EVIDENCE_DIR"):
        edir = os.path.join(VERIF, "evidence", "partial")
    os.makedirs(edir, exist_ok=True)
    json.dump(ev, open(os.path.join(edir, f"{prop}.json"), "w"), indent=1)


def replay_file(prop, path):
    """re-run a recorded counterexample against the CURRENT tree: exit 1 + VIOLATION line if it
    still fails natively, exit 0 if it does not"""
    d = json.load(open(path))
    rep = d.get("replay", {})
    root, ws, lock = prep_ws(prop + "-replay")
    idx = harness_index()
    crate, fq = idx[d["harness"]]
    try:
        assemble(ws, [crate])
        if crate == "syntax":
            hdir = os.path.join(ws, "verif_h")
            if not os.path.exists(os.path.join(hdir, "completion_gen.rs")):
                gen_completion_tables(ws)
        still = False
        texts = [b["text"] for b in rep.get("native_failures", []) if b.get("text") is not None]
        if texts:
            binp = build_native(ws)
            listed = {f["id"] for f in load_known_findings().get("findings", [])}
            oracles = [oracle_c01, oracle_c02, make_oracle_c04(listed)]
            for x in native_parse_props(binp, texts):
                whys = [w for w in (o(x) for o in oracles) if w]
                print(json.dumps({"text": x.get("text"), "still_fails": bool(whys), "why": whys}))
                still = still or bool(whys)
        tests = [t for t in rep.get("tests", []) if t.get("test_source")]
        if tests:
            hfile = None
            for hf, mf, mn in INJECT[crate]:
                if ("::" + mn + "::") in ("::" + fq):
                    hfile = os.path.join(ws, "verif_h", os.path.basename(hf))
            with open(hfile, "a") as f:
                for t in tests:
                    f.write("\n" + t["test_source"] + "\n")
            env = dict(os.environ)
            env["CARGO_NET_OFFLINE"] = "true"
            for t in tests:
                r = subprocess.run(["cargo", "kani", "playback", "-Z", "concrete-playback", "-p", PACKAGE_OF[crate],
                                    "--", t["name"]], cwd=ws, env=env, stdout=subprocess.PIPE,
                                   stderr=subprocess.STDOUT)
                o = r.stdout.decode("utf-8", "replace")
                failed = bool(re.search(r"test result: FAILED|panicked at", o))
                print(json.dumps({"test": t["name"], "check": t.get("check"), "still_fails": failed}))
                still = still or failed
        if still:
            print(f"VIOLATION property={prop} replay={path}")
            return 1
        print("replay: the recorded counterexample no longer fails on the current tree")
        return 0
    finally:
        shutil.rmtree(ws, ignore_errors=True)


def main(argv):
    import argparse
    ap = argparse.ArgumentParser()
    ap.add_argument("prop")
    ap.add_argument("--tier", default=os.environ.get("VERIF_TIER", "quick"))
    ap.add_argument("--only", action="append")
    ap.add_argument("--replay")
    a = ap.parse_args(argv)
    seed = int(os.environ.get("VERIF_SEED", "0") or 0)
    if a.replay:
        return replay_file(a.prop, a.replay)
    return check(a.prop, a.tier, only=a.only, seed=seed)


if __name__ == "__main__":
    sys.exit(main(sys.argv[1:]))
