"""Turn token-kind sequences from solver counterexamples into concrete TableGen text."""
import os
import re

LEXEME = {
    "Eof": "", "Whitespace": " ", "LineComment": "//c\n", "BlockComment": "/*c*/", "Error": "\u00e9",
    "PreProcessor": "#define M\n",
    "Minus": "-", "Plus": "+", "LSquare": "[", "RSquare": "]", "LBrace": "{", "RBrace": "}",
    "LParen": "(", "RParen": ")", "Less": "<", "Greater": ">", "Colon": ":", "Semi": ";", "Comma": ",",
    "Dot": ".", "Equal": "=", "Question": "?", "Paste": "#", "DotDotDot": "...",
    "Assert": "assert", "Bit": "bit", "Bits": "bits", "Class": "class", "Code": "code", "Dag": "dag",
    "Def": "def", "Defm": "defm", "Defset": "defset", "Defvar": "defvar", "Dump": "dump", "ElseKw": "else",
    "Field": "field", "Foreach": "foreach", "If": "if", "In": "in", "Include": "include", "Int": "int",
    "Let": "let", "List": "list", "MultiClass": "multiclass", "String": "string", "Then": "then",
    "TrueVal": "true", "FalseVal": "false", "IntVal": "1", "BinaryIntVal": "0b1", "Id": "x",
    "StrVal": "\"s\"", "VarName": "$v", "CodeFragment": "[{c}]",
    "Ifdef": "#ifdef", "Ifndef": "#ifndef", "Else": "#else", "Endif": "#endif", "Define": "#define",
}
BANG = {
    "XAdd": "add", "XAnd": "and", "XCast": "cast", "XCon": "con", "XCond": "cond", "XDag": "dag", "XDiv": "div",
    "XEmpty": "empty", "XEq": "eq", "XExists": "exists", "XFilter": "filter", "XFind": "find", "XFoldl": "foldl",
    "XForEach": "foreach", "XGe": "ge", "XGetDagArg": "getdagarg", "XGetDagName": "getdagname",
    "XGetDagOp": "getdagop", "XGt": "gt", "XHead": "head", "XIf": "if", "XInitialized": "initialized",
    "XInterleave": "interleave", "XIsA": "isa", "XLe": "le", "XListConcat": "listconcat",
    "XListFlatten": "listflatten", "XListRemove": "listremove", "XListSplat": "listsplat", "XLog2": "logtwo",
    "XLt": "lt", "XMul": "mul", "XNe": "ne", "XNot": "not", "XOr": "or", "XRange": "range", "XRepr": "repr",
    "XSetDagArg": "setdagarg", "XSetDagName": "setdagname", "XSetDagOp": "setdagop", "XShl": "shl",
    "XSize": "size", "XSra": "sra", "XSrl": "srl", "XStrConcat": "strconcat", "XSub": "sub", "XSubst": "subst",
    "XSubstr": "substr", "XTail": "tail", "XToLower": "tolower", "XToUpper": "toupper", "XXor": "xor",
}


def kind_names(ws):
    """TokenKind variant names in discriminant order, read from the scratch copy"""
    src = open(os.path.join(ws, "crates/syntax/src/token_kind.rs")).read()
    m = re.search(r"pub enum TokenKind \{(.*?)\n\}", src, re.S)
    body = re.sub(r"//.*", "", m.group(1))
    return [x.strip() for x in body.split(",") if x.strip()]


def lexeme(name):
    if name in LEXEME:
        return LEXEME[name]
    if name in BANG:
        return "!" + BANG[name]
    return "@"


# different shapes of lexical Error tokens (multi-byte, ending in a line break, multi-char)
ERROR_VARIANTS = ["\u00e9", "\"s\n", "..", "!zz", "#define\n"]


def realise(names, sep=" ", error_lexeme=None):
    """text whose token-kind sequence contains `names` in order (whitespace is added between
    tokens so that adjacent lexemes do not merge)"""
    out = []
    for n in names:
        lx = lexeme(n)
        if n == "Error" and error_lexeme is not None:
            lx = error_lexeme
        if lx == "":
            continue
        out.append(lx)
    return sep.join(out)


BATTERY = [
    "class A<int x = 1> : B<x> { let y = !add(x, 1); }\n",
    "// c\n#define M\n#ifdef M\nclass A;\n#else\nclass B;\n#endif\ndef d : A;\n",
    "#ifdef U\nclass X;\n#endif\nclass Y;",
    "class A { int x = \"é\" ; } /* € */ @ $ [{ code }] 0b2 1a ..",
    "let a = 1 in { def x; }\nforeach i = [1,2] in def y#i;",
    "#ifdef A\nclass X;",
    "class A : ;\ndefvar = 1;\ndefset int = { }\n",
    "multiclass m",
    "class",
    "def X { int a = \u00e9; } \u2192 \U0001F600",
    "class A;\n\"abc\nclass X;\n", "class A;\n#define\nclass X;", "class X;\n#ifdef\n", "x [{ abc\n", "a\n#ifndef\n",
    "\u20ac",
]


# complete minimal sentences starting with a given kind (for callee placeholders)
EXPAND = {
    "LBrace": ["{1}", "{ }", "{ def x; }"], "LSquare": ["[1]"], "LParen": ["(x)", "(x 1)"],
    "XCond": ["!cond(1: 1)"], "Bits": ["bits<1>"], "List": ["list<int>"],
    "Class": ["class X;"], "Def": ["def x;"], "Defm": ["defm x : y;"], "Defset": ["defset int s = { }"],
    "Defvar": ["defvar v = 1;"], "Dump": ["dump 1;"], "Foreach": ["foreach i = [1] in def x;"],
    "If": ["if 1 then def x;"], "Let": ["let a = 1 in def x;", "let a = 1;"], "MultiClass": ["multiclass m { def x; }"],
    "Include": ["include \"f\""], "Assert": ["assert 1, \"m\";"], "Colon": [": A"], "Less": ["<int a>", "<1>"],
    "Id": ["x<1>", "x.y"], "IntVal": ["1...2", "1{2}"], "Field": ["field int f;"],
    "Bit": ["bit b;"], "Int": ["int i;"], "String": ["string s;"],
}

# (prefix, suffix) text that leads the real parser into the rule function of a unit
CONTEXT = {
    "value": ("defvar v = ", ";"), "inner_value": ("defvar v = ", ";"), "simple_value": ("defvar v = ", ";"),
    "name_value": ("def ", ";"), "inner_name_value": ("def ", ";"), "value_suffix": ("defvar v = x", ";"),
    "range_list": ("defvar v = x{", "};"), "range_piece": ("defvar v = x{", "};"),
    "slice_elements": ("defvar v = x[", "];"), "slice_element": ("defvar v = x[", "];"),
    "bits": ("defvar v = ", ";"), "list": ("defvar v = ", ";"), "dag": ("defvar v = ", ";"),
    "dagarg_list": ("defvar v = (op ", ");"), "dagarg": ("defvar v = (op ", ");"),
    "identifier_or_class_value": ("defvar v = ", ";"), "bang_operator": ("defvar v = ", ";"),
    "cond_operator": ("defvar v = ", ";"), "cond_clause": ("defvar v = !cond(", ");"),
    "type": ("class C<", " a>;"), "bits_type": ("class C<", " a>;"), "list_type": ("class C<", " a>;"),
    "class_ref": ("class C : ", ";"), "parent_class_list": ("class C ", ";"), "arg_value_list": ("def d : A<", ">;"),
    "body": ("class C ", ""), "body_item": ("class C { ", " }"), "field_def": ("class C { ", " }"),
    "field_let": ("class C { ", " }"), "record_body": ("class C ", ""),
    "let_list": ("let ", " in def x;"), "let_item": ("let ", " in def x;"),
    "template_arg_list": ("class C", ";"), "template_arg_decl": ("class C<", ">;"),
    "foreach_iterator": ("foreach ", " in def x;"), "foreach_iterator_init": ("foreach i = ", " in def x;"),
    "multi_class_statements": ("multiclass m { ", ""), "multi_class_statement": ("multiclass m { ", " }"),
    "statement_list_block": ("defset int s = ", ""), "statement_list_single": ("let a = 1 in ", ""),
}


def candidates(names, unit, limit=4000):
    """concrete texts around a counterexample's token kinds: every token either as its bare
    lexeme or expanded to a minimal complete sentence starting with it; wrapped in the context
    that reaches the unit's rule function"""
    import itertools
    pre, suf = CONTEXT.get(unit, ("", ""))
    opts = []
    for n in names:
        o = [lexeme(n)] + EXPAND.get(n, [])
        if n in BANG:
            o.append("!" + BANG[n] + "(1)")
        opts.append(o)
    out = []
    for combo in itertools.product(*opts):
        out.append(pre + " ".join(c for c in combo if c != "") + suf)
        if len(out) >= limit:
            break
    # also every proper prefix of the bare rendering (rules cut short by the end of input)
    bare = [lexeme(n) for n in names]
    for k in range(len(bare) + 1):
        out.append(pre + " ".join(bare[:k]))
        out.append(pre + " ".join(bare[:k]) + suf)
        for j in range(k):       # and with one token dropped
            out.append(pre + " ".join(bare[:j] + bare[j + 1:k]) + suf)
    return list(dict.fromkeys(out))


# a minimal sentence per nonterminal (callee placeholders in enumerated replays)
MINSENT = {
    "Value": ["1", "x"], "NameValue": ["x"], "InnerValue": ["1"], "InnerNameValue": ["x"], "SimpleValue": ["1"],
    "Type": ["int"], "BitsType": ["bits<1>"], "ListType": ["list<int>"], "RangeList": ["1"], "RangePiece": ["1"],
    "Statement": ["def x;"], "BlockOrStatement": ["{ }", "def x;"], "BracedStatements": ["{ }"],
    "StatementListTop": ["def x;"], "ClassRef": ["A"], "ArgValueList": ["1"], "LetItem": ["a = 1"], "LetList": ["a = 1"],
    "TemplateArgDecl": ["int a"], "TemplateArgList": ["<int a>"], "RecordBody": [";"], "ParentClassList": [": A"],
    "Body": [";", "{ }"], "BodyItem": ["int f;"], "FieldDef": ["int f;"], "FieldLet": ["let f = 1;"],
    "DagArg": ["x"], "DagArgList": ["x"], "SliceElement": ["1"], "SliceElements": ["1"], "ValueSuffix": [".f"],
    "CondClause": ["1: 1"], "Bits": ["{1}"], "List": ["[1]"], "Dag": ["(x)"], "IdentifierOrClassValue": ["x"],
    "BangOperator": ["!add(1)"], "CondOperator": ["!cond(1: 1)"], "MultiClassStatement": ["def x;"],
    "MultiClassStatements": ["def x; }"], "ForeachIterator": ["i = [1]"], "ForeachIteratorInit": ["[1]"],
    "Include": ["include \"f\""], "Class": ["class X;"], "Def": ["def x;"], "Defm": ["defm x : y;"],
    "Defset": ["defset int s = { }"], "Defvar": ["defvar v = 1;"], "Dump": ["dump 1;"],
    "Foreach": ["foreach i = [1] in def x;"], "If": ["if 1 then def x;"], "Let": ["let a = 1 in def x;"],
    "MultiClass": ["multiclass m { def x; }"], "Assert": ["assert 1, \"m\";"],
}


def unit_alphabet(classes):
    """lexemes for the symbol classes of a unit's NFA (gen_rules.compile_unit)"""
    out = []
    for c in classes:
        if c[0] == "T":
            ks = sorted(c[1])
            if len(ks) > 3:
                ks = ks[:2]
            out += [lexeme(k) for k in ks]
        else:
            out += MINSENT.get(c[1], [])
    return list(dict.fromkeys(x for x in out if x))


# tokens no rule expects where they appear (recovery tokens and friends): every enumeration
# includes them so that error paths are exercised too
NOISE = [";", "x", "{", "}", ",", "include", "class"]


def enumerate_unit(unit, classes, maxlen=6, limit=60000):
    import itertools
    pre, suf = CONTEXT.get(unit, ("", ""))
    alpha = list(dict.fromkeys(unit_alphabet(classes) + NOISE))
    while len(alpha) ** maxlen > limit and maxlen > 2:
        maxlen -= 1
    out = []
    for L in range(0, maxlen + 1):
        for combo in itertools.product(alpha, repeat=L):
            out.append(pre + " ".join(combo) + suf)
            if len(out) >= limit:
                return out
    return out


def complete_value(kind):
    """a minimal complete value starting with a token of `kind`"""
    if kind in BANG and kind != "XCond":
        return "!" + BANG[kind] + "(1)"
    return {"LBrace": "{1}", "LSquare": "[1]", "LParen": "(x)", "XCond": "!cond(1: 1)"}.get(kind, lexeme(kind))


def complete_type(kind):
    return {"Bits": "bits<1>", "List": "list<int>", "Id": "X"}.get(kind, lexeme(kind))


def first_set_battery(first_type, first_value):
    """one text per member of FIRST(Type) / FIRST(Value) in every position where the parser
    consults a constant token table before descending"""
    out = []
    for k in sorted(first_type):
        t = complete_type(k)
        out += [f"class C {{ {t} f; }}", f"class C {{ field {t} f = ?; }}", f"def d {{ {t} f; }}"]
    for k in sorted(first_value):
        v = complete_value(k)
        out += [f"def d : A<{v}>;", f"def d : A<1, {v}>;", f"defvar z = A<{v}>;"]
        if k != "LBrace":
            out += [f"def {v};", f"defm {v} : M;", f"defvar z = x[1...{v}];"]
    return out
