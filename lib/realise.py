"""Turn token-kind sequences from solver counterexamples into concrete TableGen text."""
import os
import re

LEXEME = {
    "Eof": "", "Whitespace": " ", "LineComment": "//c\n", "BlockComment": "/*c*/", "Error": "@",
    "PreProcessor": "#define M\n",
    "Minus": "-", "Plus": "+", "LSquare": "[", "RSquare": "]", "LBrace": "{", "RBrace": "}",
    "LParen": "(", "RParen": ")", "Less": "<", "Greater": ">", "Colon": ":", "Semi": ";", "Comma": ",",
    "Dot": ".", "Equal": "=", "Question": "?", "Paste": "#", "DotDotDot": "...",
    "Assert": "assert", "Bit": "bit", "Bits": "bits", "Class": "class", "Code": "code", "Dag": "dag",
    "Def": "def", "Defm": "defm", "Defset": "defset", "Defvar": "defvar", "Dump": "dump", "ElseKw": "else",
    "Field": "field", "Foreach": "foreach", "If": "if", "In": "in", "Include": "include", "Int": "int",
    "Let": "let", "List": "list", "MultiClass": "multiclass", "String": "string", "Then": "then",
    "TrueVal": "true", "FalseVal": "false", "IntVal": "1", "BinaryIntVal": "0b1", "Id": "x",
    "StrVal": "\"s\"", "VarName": "$v", "CodeFragment": "[{c}]",
    "Ifdef": "#ifdef", "Ifndef": "#ifndef", "Else": "#else", "Endif": "#endif", "Define": "#define",
}
BANG = {
    "XAdd": "add", "XAnd": "and", "XCast": "cast", "XCon": "con", "XCond": "cond", "XDag": "dag", "XDiv": "div",
    "XEmpty": "empty", "XEq": "eq", "XExists": "exists", "XFilter": "filter", "XFind": "find", "XFoldl": "foldl",
    "XForEach": "foreach", "XGe": "ge", "XGetDagArg": "getdagarg", "XGetDagName": "getdagname",
    "XGetDagOp": "getdagop", "XGt": "gt", "XHead": "head", "XIf": "if", "XInitialized": "initialized",
    "XInterleave": "interleave", "XIsA": "isa", "XLe": "le", "XListConcat": "listconcat",
    "XListFlatten": "listflatten", "XListRemove": "listremove", "XListSplat": "listsplat", "XLog2": "logtwo",
    "XLt": "lt", "XMul": "mul", "XNe": "ne", "XNot": "not", "XOr": "or", "XRange": "range", "XRepr": "repr",
    "XSetDagArg": "setdagarg", "XSetDagName": "setdagname", "XSetDagOp": "setdagop", "XShl": "shl",
    "XSize": "size", "XSra": "sra", "XSrl": "srl", "XStrConcat": "strconcat", "XSub": "sub", "XSubst": "subst",
    "XSubstr": "substr", "XTail": "tail", "XToLower": "tolower", "XToUpper": "toupper", "XXor": "xor",
}


def kind_names(ws):
    """TokenKind variant names in discriminant order, read from the scratch copy"""
    src = open(os.path.join(ws, "crates/syntax/src/token_kind.rs")).read()
    m = re.search(r"pub enum TokenKind \{(.*?)\n\}", src, re.S)
    body = re.sub(r"//.*", "", m.group(1))
    return [x.strip() for x in body.split(",") if x.strip()]


def lexeme(name):
    if name in LEXEME:
        return LEXEME[name]
    if name in BANG:
        return "!" + BANG[name]
    return "@"


def realise(names, sep=" "):
    """text whose token-kind sequence contains `names` in order (whitespace is added between
    tokens so that adjacent lexemes do not merge)"""
    out = []
    for n in names:
        lx = lexeme(n)
        if lx == "":
            continue
        out.append(lx)
    return sep.join(out)


BATTERY = [
    "class A<int x = 1> : B<x> { let y = !add(x, 1); }\n",
    "// c\n#define M\n#ifdef M\nclass A;\n#else\nclass B;\n#endif\ndef d : A;\n",
    "#ifdef U\nclass X;\n#endif\nclass Y;",
    "class A { int x = \"é\" ; } /* € */ @ $ [{ code }] 0b2 1a ..",
    "let a = 1 in { def x; }\nforeach i = [1,2] in def y#i;",
    "#ifdef A\nclass X;",
    "class A : ;\ndefvar = 1;\ndefset int = { }\n",
    "multiclass m",
    "class",
]
