//! Native replay helper: runs the REAL (unstubbed) tablegen-lsp code on concrete inputs
//! derived from solver counterexamples, and dumps tables the harnesses are generated from.
use std::io::Read;
use std::sync::mpsc;
use std::time::Duration;

fn unhex(s: &str) -> Vec<u8> {
    (0..s.len() / 2).map(|i| u8::from_str_radix(&s[2 * i..2 * i + 2], 16).unwrap()).collect()
}

fn json_str(s: &str) -> String {
    let mut o = String::from("\"");
    for c in s.chars() {
        match c {
            '"' => o.push_str("\\\""),
            '\\' => o.push_str("\\\\"),
            '\n' => o.push_str("\\n"),
            '\r' => o.push_str("\\r"),
            '\t' => o.push_str("\\t"),
            c if (c as u32) < 0x20 => o.push_str(&format!("\\u{:04x}", c as u32)),
            c => o.push(c),
        }
    }
    o.push('"');
    o
}

/// C01/C02/C17 oracles on one text through the real `syntax::parse`
fn parse_props(text: String) -> String {
    let (tx, rx) = mpsc::channel();
    let t2 = text.clone();
    std::thread::Builder::new()
        .stack_size(64 << 20)
        .spawn(move || {
            let r = std::panic::catch_unwind(|| {
                let p = syntax::parse(&t2);
                let root = p.syntax_node();
                let tree_text = root.text().to_string();
                let lossless = tree_text == t2;
                // token ranges contiguous and equal to their text positions
                let mut off = 0usize;
                let mut ranges_ok = true;
                let mut kinds = Vec::new();
                for el in root.descendants_with_tokens() {
                    if let rowan::NodeOrToken::Token(t) = el {
                        let r = t.text_range();
                        if usize::from(r.start()) != off || usize::from(r.end()) != off + t.text().len() {
                            ranges_ok = false;
                        }
                        if t2.get(off..off + t.text().len()) != Some(t.text()) {
                            ranges_ok = false;
                        }
                        off += t.text().len();
                        kinds.push(format!("{:?}", t.kind()));
                    }
                }
                if off != t2.len() {
                    ranges_ok = false;
                }
                let mut errs = Vec::new();
                let mut err_ok = true;
                for e in p.errors() {
                    let (s, en) = (usize::from(e.range.start()), usize::from(e.range.end()));
                    if e.message.is_empty() || s > en || en > t2.len() || !t2.is_char_boundary(s) || !t2.is_char_boundary(en) {
                        err_ok = false;
                    }
                    errs.push(format!("[{},{},{}]", s, en, json_str(&e.message)));
                }
                format!(
                    "\"panicked\":false,\"lossless\":{},\"ranges_ok\":{},\"errors_ok\":{},\"n_errors\":{},\"errors\":[{}],\"tokens\":{}",
                    lossless, ranges_ok, err_ok, errs.len(), errs.join(","), json_str(&kinds.join(" "))
                )
            });
            let _ = tx.send(r.unwrap_or_else(|_| "\"panicked\":true".to_string()));
        })
        .unwrap();
    match rx.recv_timeout(Duration::from_secs(3)) {
        Ok(body) => format!("{{\"text\":{},\"hang\":false,{}}}", json_str(&text), body),
        Err(_) => format!("{{\"text\":{},\"hang\":true}}", json_str(&text)),
    }
}

fn completion_dump() -> String {
    use ide::analysis::AnalysisHost;
    // labels offered by the real Analysis::completion in the four contexts
    // the `!` contexts: at the end of a value, directly in front of existing letters (the `!`
    // and the word lex as ONE token), and nested inside another operator's arguments
    let cases: [(&str, &str, Option<&str>); 9] = [
        ("bang", "class Foo<int a = !$", Some("!")),
        ("bang_base", "class Foo<int a = !$", None),
        ("bang2", "class Foo<int a = !$size(a)>;", Some("!")),
        ("bang2_base", "class Foo<int a = !$size(a)>;", None),
        ("bang3", "def X { int a = !add(1, !$mul(2, 3)); }", Some("!")),
        ("bang3_base", "def X { int a = !add(1, !$mul(2, 3)); }", None),
        ("toplevel", "c$", None),
        ("type", "class Foo<i$", None),
        ("value", "class Foo<int a = t$", None),
    ];
    let mut out = Vec::new();
    for (name, fixture, trigger) in cases {
        let pos = fixture.find('$').unwrap();
        let text = fixture.replace('$', "");
        let labels = completion_labels(&text, pos, trigger);
        out.push(format!("{}:[{}]", json_str(name), labels.iter().map(|l| json_str(l)).collect::<Vec<_>>().join(",")));
    }
    let _ = AnalysisHost::new();
    format!("{{{}}}", out.join(","))
}

fn completion_labels(text: &str, pos: usize, trigger: Option<&str>) -> Vec<String> {
    verif_glue::completion_labels(text, pos, trigger)
}

mod verif_glue;

fn main() {
    let args: Vec<String> = std::env::args().collect();
    match args.get(1).map(|s| s.as_str()) {
        Some("parse-props") => {
            // one hex-encoded text per argument (or stdin lines)
            let mut inputs: Vec<String> = args[2..].to_vec();
            if inputs.is_empty() {
                let mut s = String::new();
                std::io::stdin().read_to_string(&mut s).unwrap();
                inputs = s.lines().map(|l| l.trim().to_string()).filter(|l| !l.is_empty()).collect();
            }
            // one JSON object per line, flushed; after a hang the process exits (the stuck
            // thread cannot be stopped) and the caller resumes with the remaining inputs
            use std::io::Write;
            let out = std::io::stdout();
            for h in inputs {
                let bytes = unhex(h.trim_start_matches("h:"));
                let text = match String::from_utf8(bytes) {
                    Ok(t) => t,
                    Err(_) => {
                        println!("{{\"invalid_utf8\":true}}");
                        continue;
                    }
                };
                let r = parse_props(text);
                println!("{}", r);
                out.lock().flush().ok();
                if r.contains("\"hang\":true") {
                    std::process::exit(0);
                }
            }
        }
        Some("completion-dump") => println!("{}", completion_dump()),
        _ => {
            eprintln!("usage: verif_native parse-props <hex>... | completion-dump");
            std::process::exit(2);
        }
    }
}
