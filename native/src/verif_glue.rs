//! glue to the real ide crate: one-file workspace, completion labels
use std::sync::Arc;

use ide::analysis::AnalysisHost;
use ide::file_system::{FileId, FilePath, FilePosition, FileSystem};

struct OneFile {
    path: FilePath,
    text: String,
}

impl FileSystem for OneFile {
    fn assign_or_get_file_id(&mut self, _path: FilePath) -> FileId {
        FileId(0)
    }
    fn path_for_file(&self, _file_id: &FileId) -> &FilePath {
        &self.path
    }
    fn read_content(&self, _file_path: &FilePath) -> Option<String> {
        Some(self.text.clone())
    }
}

pub fn completion_labels(text: &str, pos: usize, trigger: Option<&str>) -> Vec<String> {
    let mut host = AnalysisHost::new();
    let mut fs = OneFile { path: FilePath(std::path::PathBuf::from("/main.td")), text: text.to_string() };
    host.set_file_content(FileId(0), Arc::from(text));
    host.set_root_file(&mut fs, FileId(0));
    let analysis = host.analysis();
    let items = analysis
        .completion(FilePosition::new(FileId(0), (pos as u32).into()), trigger.map(|s| s.to_string()))
        .unwrap_or_default();
    let mut labels: Vec<String> = items.into_iter().map(|i| format!("{:?}:{}", i.kind, i.label)).collect();
    labels.sort();
    labels
}
