// Kani harness C for C10: lsp::to_proto::{position,range} and lsp::from_proto::{position,range}
// are exact pass-throughs of LineIndex::{pos_to_line_col, line_col_to_pos} (which harnesses
// A/B in harness/ide/line_index_h.rs decide against the reference).  The two LineIndex
// methods are replaced by recorders returning arbitrary values; the LineIndex passed is the
// index of the empty text and is never read.
#![allow(dead_code, unused_imports, static_mut_refs)]

use async_lsp::lsp_types;
use ide::line_index::LineIndex;
use text_size::{TextRange, TextSize};

use crate::{from_proto, to_proto};

static mut G_POS: [u32; 2] = [0; 2];
static mut G_NPOS: usize = 0;
static mut G_RET_LC: [(usize, u32); 2] = [(0, 0); 2];
static mut G_LC: [(usize, u32); 2] = [(0, 0); 2];
static mut G_NLC: usize = 0;
static mut G_RET_POS: [u32; 2] = [0; 2];

fn stub_pos_to_line_col(_li: &LineIndex, pos: TextSize) -> (usize, u32) {
    unsafe {
        let i = G_NPOS;
        assert!(i < 2);
        G_POS[i] = pos.into();
        G_NPOS += 1;
        G_RET_LC[i]
    }
}
fn stub_line_col_to_pos(_li: &LineIndex, line: usize, col: u32) -> TextSize {
    unsafe {
        let i = G_NLC;
        assert!(i < 2);
        G_LC[i] = (line, col);
        G_NLC += 1;
        TextSize::from(G_RET_POS[i])
    }
}

fn fake_index() -> &'static LineIndex {
    // a real (empty) index; its methods are stubbed, so its content is never read
    Box::leak(Box::new(LineIndex::new("")))
}

#[kani::proof]
#[kani::unwind(4)]
#[kani::stub(ide::line_index::LineIndex::pos_to_line_col, stub_pos_to_line_col)]
#[kani::stub(ide::line_index::LineIndex::line_col_to_pos, stub_line_col_to_pos)]
fn c10_lsp_passthrough() {
    let li = fake_index();
    let l0: u32 = kani::any();
    let c0: u32 = kani::any();
    let l1: u32 = kani::any();
    let c1: u32 = kani::any();
    unsafe {
        G_RET_LC = [(l0 as usize, c0), (l1 as usize, c1)];
    }
    // to_proto::position
    let p: u32 = kani::any();
    let got = to_proto::position(li, TextSize::from(p));
    unsafe {
        assert!(G_NPOS == 1 && G_POS[0] == p, "to_proto::position asks for the given offset");
    }
    assert!(got.line == l0 && got.character == c0, "to_proto::position returns (line, UTF-16 column) unchanged");
    // to_proto::range
    unsafe {
        G_NPOS = 0;
    }
    let a: u32 = kani::any();
    let b: u32 = kani::any();
    kani::assume(a <= b);
    let r = to_proto::range(li, TextRange::new(TextSize::from(a), TextSize::from(b)));
    unsafe {
        assert!(G_NPOS == 2 && G_POS[0] == a && G_POS[1] == b, "to_proto::range converts start then end");
    }
    assert!(r.start.line == l0 && r.start.character == c0 && r.end.line == l1 && r.end.character == c1);
    // from_proto::position
    let q0: u32 = kani::any();
    let q1: u32 = kani::any();
    unsafe {
        G_RET_POS = [q0, q1];
    }
    let line: u32 = kani::any();
    let ch: u32 = kani::any();
    let o = from_proto::position(li, lsp_types::Position::new(line, ch));
    unsafe {
        assert!(G_NLC == 1 && G_LC[0] == (line as usize, ch), "from_proto::position passes (line, character) unchanged");
    }
    assert!(u32::from(o) == q0);
    // from_proto::range
    unsafe {
        G_NLC = 0;
    }
    kani::assume(q0 <= q1);
    let rr = from_proto::range(
        li,
        lsp_types::Range::new(lsp_types::Position::new(line, ch), lsp_types::Position::new(l1, c1)),
    );
    unsafe {
        assert!(G_NLC == 2 && G_LC[0] == (line as usize, ch) && G_LC[1] == (l1 as usize, c1));
    }
    assert!(u32::from(rr.start()) == q0 && u32::from(rr.end()) == q1, "from_proto::range converts start then end");
    kani::cover!(got.line == 7 && got.character == 9, "W: pass-through witness");
}
