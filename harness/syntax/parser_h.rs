// Kani harnesses for crates/syntax/src/parser.rs (child module): level L1.
// Every ParserBase primitive is run from an ARBITRARY parser state satisfying the
// losslessness invariant Inv over a symbolic token stream (SymStream = any stream allowed
// by the L0 contract) and must re-establish Inv.  C01 (lossless), C02 (no panic, Error =>
// message), C17 (error ranges inside the text on cursor values).
//
// rowan's GreenNodeBuilder is replaced by a ghost recorder that CHECKS, at every token()
// call, that the token handed to the builder is exactly the next token of the stream with
// exactly its byte range.
#![allow(dead_code, unused_imports, static_mut_refs)]

use super::*;
use crate::token_kind::TokenKind as K;
use crate::verif_common::{any_kind, kind_from, SymStream, CAP, G_TEXT_RANGE};

// ---------------------------------------------------------------------------
// ghost state

pub static mut G_KINDS: [K; CAP + 1] = [K::Eof; CAP + 1];
pub static mut G_OFFS: [usize; CAP + 2] = [0; CAP + 2];
pub static mut G_NTOK: usize = 0; // number of real tokens of the stream
pub static mut G_LOGGED: usize = 0; // tokens handed to the builder so far (in order, each once)
pub static mut G_EOF_SAVES: u32 = 0; // empty Eof tokens handed to the builder
pub static mut G_DEPTH: i32 = 0;
pub static mut G_MIN_DEPTH: i32 = 0;
pub static mut G_NODES: u32 = 0;
pub static mut G_ERRS: u32 = 0;
pub static mut G_ERR_RANGE: (usize, usize) = (0, 0);
pub static mut G_LAST_NODE: u16 = 0;

pub fn g_token<'c>(_b: &mut rowan::GreenNodeBuilder<'c>, kind: rowan::SyntaxKind, _text: &str)
where
    'c: 'c,
{
    unsafe {
        let (s, e) = G_TEXT_RANGE;
        let i = G_LOGGED;
        if i >= G_NTOK {
            // only the (empty) Eof token may be pushed after the last real token
            assert!(kind == rowan::SyntaxKind::from(K::Eof), "C01: nothing but Eof is pushed after the last token");
            assert!(s == G_OFFS[G_NTOK] && e == s, "C01: Eof token is empty and sits at the end");
            G_EOF_SAVES += 1;
            return;
        }
        assert!(kind == rowan::SyntaxKind::from(G_KINDS[i]), "C01: tokens are pushed in stream order, each once");
        assert!(s == G_OFFS[i] && e == G_OFFS[i + 1], "C01: token text is exactly the cursor delta of its lexing");
        G_LOGGED = i + 1;
    }
}
pub fn g_start_node<'c>(_b: &mut rowan::GreenNodeBuilder<'c>, kind: rowan::SyntaxKind)
where
    'c: 'c,
{
    unsafe {
        G_DEPTH += 1;
        G_NODES += 1;
        G_LAST_NODE = kind.0;
    }
}
pub fn g_finish_node<'c>(_b: &mut rowan::GreenNodeBuilder<'c>)
where
    'c: 'c,
{
    unsafe {
        G_DEPTH -= 1;
        if G_DEPTH < G_MIN_DEPTH {
            G_MIN_DEPTH = G_DEPTH;
        }
    }
}
pub fn g_checkpoint<'c>(_b: &rowan::GreenNodeBuilder<'c>) -> rowan::Checkpoint
where
    'c: 'c,
{
    unsafe { std::mem::transmute::<usize, rowan::Checkpoint>(G_LOGGED + 1) }
}
pub fn g_start_node_at<'c>(_b: &mut rowan::GreenNodeBuilder<'c>, cp: rowan::Checkpoint, kind: rowan::SyntaxKind)
where
    'c: 'c,
{
    unsafe {
        let at = std::mem::transmute::<rowan::Checkpoint, usize>(cp);
        assert!(at >= 1 && at <= G_LOGGED + 1, "checkpoint not in the future");
        G_DEPTH += 1;
        G_NODES += 1;
        G_LAST_NODE = kind.0;
    }
}

impl<T: TokenStream> ParserBase<T> {
    /// replaces ParserBase::error: ghost counter + the real side effects on parser state
    pub fn verif_error_stub(&mut self, _message: impl Into<String>) {
        unsafe {
            G_ERRS += 1;
            G_ERR_RANGE = (self.current_range.start, self.current_range.end);
        }
        self.is_after_error = true;
    }
}

// ---------------------------------------------------------------------------
// arbitrary state under Inv

/// index of the look-ahead token in the stream (n = the Eof position)
pub fn cur_index(p: &ParserBase<SymStream>) -> usize {
    if p.token_stream.eof_seen { p.token_stream.n } else { p.token_stream.pos - 1 }
}

pub fn publish(s: &SymStream) {
    unsafe {
        let mut o = 0usize;
        macro_rules! slot {
            ($i:expr) => {
                G_KINDS[$i] = if $i < s.n { s.kinds[$i] } else { K::Eof };
                G_OFFS[$i] = o;
                if $i < s.n {
                    o += s.widths[$i] as usize;
                }
            };
        }
        slot!(0); slot!(1); slot!(2); slot!(3); slot!(4); slot!(5); slot!(6); slot!(7);
        G_KINDS[CAP] = K::Eof;
        G_OFFS[CAP] = o;
        G_OFFS[CAP + 1] = o;
        G_NTOK = s.n;
        G_LOGGED = 0;
        G_EOF_SAVES = 0;
        G_DEPTH = 0;
        G_MIN_DEPTH = 0;
        G_NODES = 0;
        G_ERRS = 0;
    }
}

pub fn inv(p: &ParserBase<SymStream>) -> bool {
    let s = &p.token_stream;
    let k = cur_index(p);
    let ok_pos = (s.eof_seen && s.pos == s.n) || (!s.eof_seen && s.pos >= 1 && s.pos <= s.n);
    let kind_k = if k < s.n { s.kinds[k] } else { K::Eof };
    let (o_k, o_k1) = unsafe { (G_OFFS[k], G_OFFS[k + 1]) };
    ok_pos
        && p.current == kind_k
        && p.current_range.start == o_k
        && p.current_range.end == o_k1
        && s.cur == o_k1
        && unsafe { G_LOGGED } == k
        && (p.current != K::Error || s.has_err)
}

/// an arbitrary parser state satisfying Inv, over an arbitrary stream of n <= nmax tokens
pub fn any_state<'a>(nmax: usize) -> ParserBase<SymStream<'a>> {
    let n: usize = kani::any();
    kani::assume(n <= nmax);
    let mut s = SymStream::any(n);
    publish(&s);
    // position: look-ahead index k in 0..=n
    let k: usize = kani::any();
    kani::assume(k <= n);
    if k == n {
        s.pos = n;
        s.eof_seen = true;
    } else {
        s.pos = k + 1;
    }
    let (o_k, o_k1) = unsafe { (G_OFFS[k], G_OFFS[k + 1]) };
    s.cur = o_k1;
    let current = if k < n { s.kinds[k] } else { K::Eof };
    s.has_err = current == K::Error;
    unsafe {
        G_LOGGED = k;
    }
    let p = ParserBase {
        token_stream: s,
        current,
        current_range: o_k..o_k1,
        builder: GreenNodeBuilder::new(),
        errors: Vec::new(),
        is_after_error: kani::any(),
    };
    assert!(inv(&p));
    p
}

fn all_trivia_between(p: &ParserBase<SymStream>, from: usize, to: usize) -> bool {
    let mut i = 0;
    let mut ok = true;
    while i < CAP {
        if i >= from && i < to && !p.token_stream.kinds[i].is_trivia() {
            ok = false;
        }
        i += 1;
    }
    ok
}

fn done(p: ParserBase<SymStream>) {
    std::mem::forget(p);
}

macro_rules! l1_harness {
    ($name:ident, $unwind:expr, $body:block) => {
        #[kani::proof]
        #[kani::unwind($unwind)]
        #[kani::stub(rowan::GreenNodeBuilder::token, crate::parser::verif_parser_h::g_token)]
        #[kani::stub(rowan::GreenNodeBuilder::start_node, crate::parser::verif_parser_h::g_start_node)]
        #[kani::stub(rowan::GreenNodeBuilder::finish_node, crate::parser::verif_parser_h::g_finish_node)]
        #[kani::stub(rowan::GreenNodeBuilder::checkpoint, crate::parser::verif_parser_h::g_checkpoint)]
        #[kani::stub(rowan::GreenNodeBuilder::start_node_at, crate::parser::verif_parser_h::g_start_node_at)]
        #[kani::stub(crate::parser::ParserBase::error, crate::parser::ParserBase::verif_error_stub)]
        fn $name() $body
    };
}

const NMAX: usize = 5;

// eat: saves the look-ahead, then every following trivia token; ends on a non-trivia token
fn body_l1_eat(nmax: usize) {
    let mut p = any_state(nmax);
    let k = cur_index(&p);
    let was_error = p.current == K::Error;
    let errs0 = unsafe { G_ERRS };
    p.eat();
    assert!(inv(&p), "C01: eat re-establishes the losslessness invariant");
    let k2 = cur_index(&p);
    if k < p.token_stream.n {
        assert!(k2 > k, "C02: eat consumes at least one token");
    } else {
        assert!(k2 == k && unsafe { G_EOF_SAVES } == 1);
    }
    assert!(!p.current.is_trivia(), "C01: look-ahead after eat is not trivia");
    assert!(all_trivia_between(&p, k + 1, k2), "C01: only trivia is skipped");
    if was_error {
        assert!(unsafe { G_ERRS } > errs0, "C02: an Error token is reported");
    }
    kani::cover!(k2 >= k + 3, "W: eat skipped two trivia tokens");
    kani::cover!(was_error, "W: Error look-ahead");
    kani::cover!(k == p.token_stream.n, "W: eat at Eof");
    done(p);
}
l1_harness!(c01c02_l1_eat, 12, {
    body_l1_eat(NMAX);
});
l1_harness!(c01c02_l1_eat_s, 6, {
    body_l1_eat(2);
});

fn body_l1_skip(nmax: usize) {
    let mut p = any_state(nmax);
    let k = cur_index(&p);
    p.skip();
    assert!(inv(&p), "C01: skip re-establishes the invariant");
    let k2 = cur_index(&p);
    assert!(k2 >= k && !p.current.is_trivia());
    assert!(all_trivia_between(&p, k, k2), "C01: skip consumes trivia only");
    kani::cover!(k2 == k + 2, "W: two trivia skipped");
    done(p);
}
l1_harness!(c01c02_l1_skip, 12, {
    body_l1_skip(NMAX);
});
l1_harness!(c01c02_l1_skip_s, 6, {
    body_l1_skip(2);
});

l1_harness!(c01c02_l1_eat_if, 12, {
    let mut p = any_state(NMAX);
    let k = cur_index(&p);
    let kind = any_kind();
    let at = p.current == kind;
    let r = p.eat_if(kind);
    assert!(inv(&p));
    assert!(r == at, "eat_if reports whether the look-ahead matched");
    if !at {
        assert!(cur_index(&p) == k, "eat_if leaves the state alone on a mismatch");
    } else if k < p.token_stream.n {
        assert!(cur_index(&p) > k);
    }
    kani::cover!(r, "W: eat_if matched");
    done(p);
});

l1_harness!(c01c02c17_l1_expect_with_msg, 12, {
    let mut p = any_state(NMAX);
    let k = cur_index(&p);
    let kind = any_kind();
    let at = p.current == kind;
    let after_err = p.is_after_error;
    let range0 = (p.current_range.start, p.current_range.end);
    let errs0 = unsafe { G_ERRS };
    p.expect_with_msg(kind, "");
    assert!(inv(&p));
    if at {
        if k < p.token_stream.n {
            assert!(cur_index(&p) > k);
        }
    } else {
        assert!(cur_index(&p) == k, "a missing token is not consumed");
        if !after_err {
            assert!(unsafe { G_ERRS } == errs0 + 1, "C04: a missing required token is an error");
            assert!(unsafe { G_ERR_RANGE } == range0, "C17: error range is the look-ahead range");
        } else {
            assert!(unsafe { G_ERRS } == errs0, "suppressed right after another error");
        }
    }
    kani::cover!(!at && !after_err, "W: error recorded");
    done(p);
});

l1_harness!(c01c02_l1_assert, 12, {
    let mut p = any_state(NMAX);
    let k = cur_index(&p);
    let kind = p.current; // precondition of Parser::assert: the same kind was peeked
    p.assert(kind);
    assert!(inv(&p));
    if k < p.token_stream.n {
        assert!(cur_index(&p) > k);
    }
    done(p);
});

fn body_l1_error_and_eat(nmax: usize) {
    let mut p = any_state(nmax);
    let k = cur_index(&p);
    let range0 = (p.current_range.start, p.current_range.end);
    p.error_and_eat("");
    assert!(inv(&p));
    unsafe {
        assert!(G_ERRS >= 1 && G_DEPTH == 0 && G_MIN_DEPTH == 0 && G_NODES == 1, "Error node is balanced");
        if p.token_stream.kinds[if k < CAP { k } else { 0 }] != K::Error || k >= p.token_stream.n {
            assert!(G_ERR_RANGE == range0, "C17: error range is the look-ahead range");
        }
    }
    if k < p.token_stream.n {
        assert!(cur_index(&p) > k, "C02: error_and_eat makes progress");
    }
    done(p);
}
l1_harness!(c01c02c17_l1_error_and_eat, 12, {
    body_l1_error_and_eat(NMAX);
});
l1_harness!(c01c02c17_l1_error_and_eat_s, 6, {
    body_l1_error_and_eat(2);
});

l1_harness!(c01c02c17_l1_error_and_recover, 12, {
    let mut p = any_state(NMAX);
    let k = cur_index(&p);
    let cur = p.current;
    let recover = matches!(cur, K::Include | K::Class | K::Def | K::Let | K::Semi) || cur == K::Eof;
    p.error_and_recover("");
    assert!(inv(&p));
    unsafe {
        assert!(G_ERRS >= 1 && G_DEPTH == 0 && G_MIN_DEPTH == 0);
    }
    if recover {
        assert!(cur_index(&p) == k, "C02: recovery tokens and Eof are not consumed");
    } else {
        assert!(cur_index(&p) > k, "C02: anything else is consumed");
    }
    kani::cover!(recover && cur != K::Eof, "W: recovery token kept");
    done(p);
});

// the real ParserBase::error (no stub): range == look-ahead range, inside the text.
// No ghost statics here (measured quirk: after writes to the `static mut` ghost arrays the
// solver treats the fresh `errors` vector as nondeterministic; see DESIGN).
#[kani::proof]
#[kani::unwind(12)]
fn c02c17_l1_error_real() {
    let n: usize = kani::any();
    kani::assume(n <= 3);
    let s = SymStream::any(n);
    let k: usize = kani::any();
    kani::assume(k <= n);
    let o_k = s.offset_of(k);
    let o_k1 = s.offset_of(k + 1);
    let total = s.offset_of(CAP);
    let mut p = ParserBase {
        token_stream: s,
        current: K::Semi,
        current_range: o_k..o_k1,
        builder: GreenNodeBuilder::new(),
        errors: Vec::new(),
        is_after_error: kani::any(),
    };
    p.error("");
    assert!(p.is_after_error && p.errors.len() == 1, "error recorded, suppression flag set");
    let r = p.errors[0].range;
    assert!(usize::from(r.start()) == o_k && usize::from(r.end()) == o_k1, "C17: error range is the look-ahead range");
    assert!(r.start() <= r.end() && usize::from(r.end()) <= total, "C17: inside the text, start <= end");
    kani::cover!(o_k1 > o_k && o_k > 0, "W: non-empty range in the middle");
    done(p);
}

// new(): Inv with the first token as look-ahead (leading trivia is NOT skipped here)
l1_harness!(c01c02_l1_new, 12, {
    let n: usize = kani::any();
    kani::assume(n <= NMAX);
    let s = SymStream::any(n);
    publish(&s);
    let p = ParserBase::new(s);
    assert!(inv(&p), "C01: new establishes the invariant");
    assert!(cur_index(&p) == 0 && !p.is_after_error && p.errors.is_empty());
    kani::cover!(p.current.is_trivia(), "W: first token may be trivia");
    done(p);
});

// at_set on the real tables == the summaries used by the L2 units
pub fn is_value_start(k: K) -> bool {
    matches!(k, K::IntVal | K::BinaryIntVal | K::StrVal | K::CodeFragment | K::TrueVal | K::FalseVal
        | K::Question | K::LBrace | K::LSquare | K::LParen | K::Id | K::VarName)
        || k.is_bang_operator() || k.is_cond_operator()
}
pub fn is_type_first(k: K) -> bool {
    matches!(k, K::Bit | K::Int | K::String | K::Dag | K::Bits | K::List | K::Code | K::Id)
}
pub fn is_recover(k: K) -> bool {
    matches!(k, K::Include | K::Class | K::Def | K::Let | K::Semi)
}




// ---------------------------------------------------------------------------
// L2 support: event log, state accessors, stubs for expect/at_set

/// event kinds of the L2 log: a consumed token, or a callee rule that reported ok / failed
pub const EV_TOK: u8 = 0;
pub const EV_OK: u8 = 1;
pub const EV_FAIL: u8 = 2;
pub const EVCAP: usize = 16;
pub static mut G_L2: bool = false;
pub static mut G_IN_CONTRACT: bool = false;
pub static mut G_EV_TAG: [u8; EVCAP] = [0; EVCAP];
pub static mut G_EV_ID: [u8; EVCAP] = [0; EVCAP];
/// first token kind of a callee placeholder (for ordered-choice guards)
pub static mut G_EV_FK: [u8; EVCAP] = [0; EVCAP];
pub static mut G_NEV: usize = 0;

pub fn log_event(tag: u8, id: u8, fk: u8) {
    unsafe {
        if G_NEV < EVCAP {
            G_EV_TAG[G_NEV] = tag;
            G_EV_ID[G_NEV] = id;
            G_EV_FK[G_NEV] = fk;
        }
        G_NEV += 1;
    }
}

/// the builder stub used by L2 units: the L1 check plus the event log
pub fn g_token_l2<'c>(b: &mut rowan::GreenNodeBuilder<'c>, kind: rowan::SyntaxKind, text: &str)
where
    'c: 'c,
{
    unsafe {
        let i = G_LOGGED;
        let is_real = i < G_NTOK;
        g_token(b, kind, text);
        if !G_IN_CONTRACT && is_real {
            log_event(EV_TOK, G_KINDS[i] as u8, G_KINDS[i] as u8);
        }
    }
}

impl<T: TokenStream> ParserBase<T> {
    /// replaces ParserBase::skip in L2 units: their streams contain no trivia, so skip() is the
    /// identity (its general behaviour is the L1 harness c01c02_l1_skip)
    pub fn verif_skip_stub(&mut self) {
        assert!(!self.current.is_trivia(), "L2 streams contain no trivia");
    }
    /// replaces ParserBase::expect: the eager `eco_format!("expected {kind:?}")` is cut
    pub fn verif_expect_stub(&mut self, kind: TokenKind) {
        self.expect_with_msg(kind, "");
    }
    /// replaces ParserBase::at_set: the scans of the three constant tables (VALUE_START 64,
    /// TYPE_FIRST_TOKENS 8, RECOVER_TOKENS 5 entries, told apart by length) are replaced by their
    /// summaries (proved equal by c02c04_l1_at_set_tables); the small inline sets are scanned
    pub fn verif_at_set_stub(&self, set: &[TokenKind]) -> bool {
        if set.len() == 64 {
            return is_value_start(self.current);
        }
        if set.len() == 8 {
            return is_type_first(self.current);
        }
        if set.len() == 5 {
            return is_recover(self.current);
        }
        let mut i = 0;
        let mut found = false;
        while i < set.len() {
            if set[i] == self.current {
                found = true;
            }
            i += 1;
        }
        found
    }
}

pub fn l2_after_error(p: &ParserBase<SymStream>) -> bool {
    p.is_after_error
}
pub fn l2_set_after_error(p: &mut ParserBase<SymStream>, v: bool) {
    p.is_after_error = v;
}
pub fn l2_consumed(p: &ParserBase<SymStream>) -> usize {
    cur_index(p)
}
pub fn l2_ntok(p: &ParserBase<SymStream>) -> usize {
    p.token_stream.n
}
pub fn l2_kind_at(p: &ParserBase<SymStream>, i: usize) -> K {
    if i < p.token_stream.n { p.token_stream.kinds[i] } else { K::Eof }
}

/// fresh parser over n symbolic non-trivia tokens (then Eof); `first` fixes the first kind
pub fn l2_parser<'a>(n: usize, first: Option<K>) -> ParserBase<SymStream<'a>> {
    let mut s = SymStream::any(n);
    macro_rules! slot {
        ($i:expr) => {
            if $i < n {
                kani::assume(!s.kinds[$i].is_trivia());
            }
        };
    }
    slot!(0); slot!(1); slot!(2); slot!(3); slot!(4); slot!(5); slot!(6); slot!(7);
    if let Some(k) = first {
        // unconditional (constant) store so that the dispatch on the first token folds
        s.kinds[0] = k;
    }
    publish(&s);
    unsafe {
        G_L2 = true;
        G_IN_CONTRACT = false;
        G_NEV = 0;
    }
    ParserBase::new(s)
}
