// Kani harnesses for crates/syntax/src/lexer.rs (child module: sees private items).
// Properties: C14 (lexical conformance), C02 (totality of the lexer),
// C01/C17 (cursor contract L0 of the lexer), C20 (lexer half).
#![allow(dead_code, unused_imports, static_mut_refs)]

use super::*;
use crate::token_kind::TokenKind;
use crate::token_kind::TokenKind as K;
use crate::token_stream::TokenStream;
use crate::verif_kf as kf;

// ---------------------------------------------------------------------------
// stubs

impl<'a> Lexer<'a> {
    /// Replaces `Lexer::error`: same control effect (slot filled, Error returned),
    /// no heap copy of the message text.
    fn verif_error_stub(&mut self, _msg: impl Into<EcoString>) -> TokenKind {
        self.error = Some(EcoString::inline("e"));
        TokenKind::Error
    }
}

// markers for the dispatch harness ------------------------------------------
#[derive(Clone, Copy, PartialEq, Eq)]
enum R {
    None,
    Whitespace,
    LineComment,
    BlockComment,
    Number,
    Identifier,
    Str,
    VarName,
    Code,
    Bang,
    Preproc,
}
static mut M_ROUTINE: R = R::None;
static mut M_CALLS: u32 = 0;
static mut M_CURSOR: usize = 0;
static mut M_START: usize = 0;
static mut M_C: char = '\0';
static mut M_RET: TokenKind = TokenKind::Eof;

impl<'a> Lexer<'a> {
    fn mark(&mut self, r: R, start: usize, c: char) -> TokenKind {
        unsafe {
            M_ROUTINE = r;
            M_CALLS += 1;
            M_CURSOR = self.s.cursor();
            M_START = start;
            M_C = c;
            M_RET
        }
    }
    fn m_whitespace(&mut self) -> TokenKind { self.mark(R::Whitespace, 0, '\0') }
    fn m_line_comment(&mut self) -> TokenKind { self.mark(R::LineComment, 0, '\0') }
    fn m_block_comment(&mut self) -> TokenKind { self.mark(R::BlockComment, 0, '\0') }
    fn m_number(&mut self, start: usize, c: char) -> TokenKind { self.mark(R::Number, start, c) }
    fn m_identifier(&mut self, start: usize) -> TokenKind { self.mark(R::Identifier, start, '\0') }
    fn m_string(&mut self) -> TokenKind { self.mark(R::Str, 0, '\0') }
    fn m_var_name(&mut self) -> TokenKind { self.mark(R::VarName, 0, '\0') }
    fn m_code_fragment(&mut self) -> TokenKind { self.mark(R::Code, 0, '\0') }
    fn m_bangoperator(&mut self) -> TokenKind { self.mark(R::Bang, 0, '\0') }
    fn m_preprocessor(&mut self) -> TokenKind { self.mark(R::Preproc, 0, '\0') }
}

// ---------------------------------------------------------------------------
// reference lexer for ONE token, written from the TableGen Programmer's
// Reference (not from lexer.rs).  ASCII input as bytes.

fn is_ualpha(b: u8) -> bool { b.is_ascii_alphabetic() || b == b'_' }
fn is_digit(b: u8) -> bool { b.is_ascii_digit() }
fn is_ualnum(b: u8) -> bool { is_ualpha(b) || is_digit(b) }
fn is_ws(b: u8) -> bool { b == b' ' || b == b'\t' || b == b'\n' || b == b'\r' }

fn ref_keyword(w: &[u8]) -> TokenKind {
    match w {
        b"assert" => K::Assert,
        b"bit" => K::Bit,
        b"bits" => K::Bits,
        b"class" => K::Class,
        b"code" => K::Code,
        b"dag" => K::Dag,
        b"def" => K::Def,
        b"dump" => K::Dump,
        b"else" => K::ElseKw,
        b"false" => K::FalseVal,
        b"foreach" => K::Foreach,
        b"defm" => K::Defm,
        b"defset" => K::Defset,
        b"defvar" => K::Defvar,
        b"field" => K::Field,
        b"if" => K::If,
        b"in" => K::In,
        b"include" => K::Include,
        b"int" => K::Int,
        b"let" => K::Let,
        b"list" => K::List,
        b"multiclass" => K::MultiClass,
        b"string" => K::String,
        b"then" => K::Then,
        b"true" => K::TrueVal,
        _ => K::Id,
    }
}

/// BangOperator / CondOperator names of the Programmer's Reference.
fn ref_bang(w: &[u8]) -> Option<TokenKind> {
    Some(match w {
        b"add" => K::XAdd,
        b"and" => K::XAnd,
        b"cast" => K::XCast,
        b"con" => K::XCon,
        b"cond" => K::XCond,
        b"dag" => K::XDag,
        b"div" => K::XDiv,
        b"empty" => K::XEmpty,
        b"eq" => K::XEq,
        b"exists" => K::XExists,
        b"filter" => K::XFilter,
        b"find" => K::XFind,
        b"foldl" => K::XFoldl,
        b"foreach" => K::XForEach,
        b"ge" => K::XGe,
        b"getdagarg" => K::XGetDagArg,
        b"getdagname" => K::XGetDagName,
        b"getdagop" => K::XGetDagOp,
        b"gt" => K::XGt,
        b"head" => K::XHead,
        b"if" => K::XIf,
        b"initialized" => K::XInitialized,
        b"interleave" => K::XInterleave,
        b"isa" => K::XIsA,
        b"le" => K::XLe,
        b"listconcat" => K::XListConcat,
        b"listflatten" => K::XListFlatten,
        b"listremove" => K::XListRemove,
        b"listsplat" => K::XListSplat,
        b"logtwo" => K::XLog2,
        b"lt" => K::XLt,
        b"mul" => K::XMul,
        b"ne" => K::XNe,
        b"not" => K::XNot,
        b"or" => K::XOr,
        b"range" => K::XRange,
        b"repr" => K::XRepr,
        b"setdagarg" => K::XSetDagArg,
        b"setdagname" => K::XSetDagName,
        b"setdagop" => K::XSetDagOp,
        b"shl" => K::XShl,
        b"size" => K::XSize,
        b"sra" => K::XSra,
        b"srl" => K::XSrl,
        b"strconcat" => K::XStrConcat,
        b"sub" => K::XSub,
        b"subst" => K::XSubst,
        b"substr" => K::XSubstr,
        b"tail" => K::XTail,
        b"tolower" => K::XToLower,
        b"toupper" => K::XToUpper,
        b"xor" => K::XXor,
        _ => return None,
    })
}

/// What a reference token looks like; `finding` marks the documented regions in
/// which this tree is known to deviate (see known_findings.json).
#[derive(Clone, Copy, PartialEq, Eq)]
enum Region {
    Plain,
    DigitLeadingIdent,
    EscapedBackslashBeforeQuote,
    NestedComment,
    SignAtEof,
}

struct RefTok {
    kind: TokenKind,
    end: usize,
    region: Region,
}

fn ref_string(t: &[u8]) -> Option<RefTok> {
    // t[0] == '"'
    let n = t.len();
    let mut i = 1;
    let mut region = Region::Plain;
    while i < n {
        let c = t[i];
        if c == b'"' {
            return Some(RefTok { kind: K::StrVal, end: i + 1, region });
        }
        if c == b'\n' || c == b'\r' {
            return None;
        }
        if c == b'\\' {
            if i + 1 >= n {
                return None;
            }
            let d = t[i + 1];
            if !(d == b'\\' || d == b'\'' || d == b'"' || d == b't' || d == b'n') {
                return None; // invalid escape: not a valid token
            }
            if d == b'\\' && i + 2 < n && t[i + 2] == b'"' {
                // `\\` directly followed by a quote: that quote closes the string
                region = Region::EscapedBackslashBeforeQuote;
            }
            i += 2;
            continue;
        }
        i += 1;
    }
    None
}

fn ref_word(t: &[u8]) -> Option<RefTok> {
    let n = t.len();
    let c = t[0];
    if c == b'+' || c == b'-' {
        if n >= 2 && is_digit(t[1]) {
            let mut e = 2;
            while e < n && is_digit(t[e]) {
                e += 1;
            }
            return Some(RefTok { kind: K::IntVal, end: e, region: Region::Plain });
        }
        let region = if n == 1 { Region::SignAtEof } else { Region::Plain };
        return Some(RefTok { kind: if c == b'+' { K::Plus } else { K::Minus }, end: 1, region });
    }
    let mut e = 0;
    while e < n && is_ualnum(t[e]) {
        e += 1;
    }
    let w = &t[..e];
    if is_digit(c) {
        // 0x<hex digits> / 0b<binary digits>: the literal is the longest such prefix (what
        // follows it is judged by the caller: a token must be followed by a separator)
        if e >= 3 && w[0] == b'0' && w[1] == b'x' && w[2].is_ascii_hexdigit() {
            let mut i = 2;
            while i < e && w[i].is_ascii_hexdigit() {
                i += 1;
            }
            return Some(RefTok { kind: K::IntVal, end: i, region: Region::Plain });
        }
        if e >= 3 && w[0] == b'0' && w[1] == b'b' && (w[2] == b'0' || w[2] == b'1') {
            let mut i = 2;
            while i < e && (w[i] == b'0' || w[i] == b'1') {
                i += 1;
            }
            return Some(RefTok { kind: K::BinaryIntVal, end: i, region: Region::Plain });
        }
        let mut all_digits = true;
        let mut i = 0;
        while i < e {
            if !is_digit(w[i]) {
                all_digits = false;
            }
            i += 1;
        }
        if all_digits {
            return Some(RefTok { kind: K::IntVal, end: e, region: Region::Plain });
        }
        // TokIdentifier ::= ("0"..."9")* ualpha (ualpha | "0"..."9")*  -- provided the digits are
        // directly followed by a letter or `_`
        let mut d = 0;
        while d < e && is_digit(w[d]) {
            d += 1;
        }
        if d < e && is_ualpha(w[d]) {
            return Some(RefTok { kind: K::Id, end: e, region: Region::DigitLeadingIdent });
        }
        return None;
    }
    Some(RefTok { kind: ref_keyword(w), end: e, region: Region::Plain })
}

/// One valid token (or separator) at the start of `t`, by maximal munch.
fn ref_token(t: &[u8]) -> Option<RefTok> {
    let n = t.len();
    if n == 0 {
        return None;
    }
    let c = t[0];
    let plain = |kind: TokenKind, end: usize| Some(RefTok { kind, end, region: Region::Plain });
    if is_ws(c) {
        let mut e = 1;
        while e < n && is_ws(t[e]) {
            e += 1;
        }
        return plain(K::Whitespace, e);
    }
    if c == b'/' {
        if n >= 2 && t[1] == b'/' {
            let mut e = 2;
            while e < n && t[e] != b'\n' && t[e] != b'\r' {
                e += 1;
            }
            return plain(K::LineComment, e);
        }
        if n >= 2 && t[1] == b'*' {
            let mut depth = 1u32;
            let mut nested = false;
            let mut i = 2;
            while i + 1 < n {
                if t[i] == b'*' && t[i + 1] == b'/' {
                    depth -= 1;
                    i += 2;
                    if depth == 0 {
                        return Some(RefTok {
                            kind: K::BlockComment,
                            end: i,
                            region: if nested { Region::NestedComment } else { Region::Plain },
                        });
                    }
                    continue;
                }
                if t[i] == b'/' && t[i + 1] == b'*' {
                    depth += 1;
                    nested = true;
                    i += 2;
                    continue;
                }
                i += 1;
            }
            return None;
        }
        return None;
    }
    if is_ualnum(c) || c == b'+' || c == b'-' {
        return ref_word(t);
    }
    match c {
        b'"' => ref_string(t),
        b'$' => {
            if n >= 2 && is_ualpha(t[1]) {
                let mut e = 2;
                while e < n && is_ualnum(t[e]) {
                    e += 1;
                }
                plain(K::VarName, e)
            } else {
                None
            }
        }
        b'[' => {
            if n >= 2 && t[1] == b'{' {
                let mut i = 2;
                while i + 1 < n {
                    if t[i] == b'}' && t[i + 1] == b']' {
                        return plain(K::CodeFragment, i + 2);
                    }
                    i += 1;
                }
                None
            } else {
                plain(K::LSquare, 1)
            }
        }
        b'!' => {
            let mut e = 1;
            while e < n && t[e].is_ascii_alphabetic() {
                e += 1;
            }
            match ref_bang(&t[1..e]) {
                Some(k) => plain(k, e),
                None => None,
            }
        }
        b']' => plain(K::RSquare, 1),
        b'{' => plain(K::LBrace, 1),
        b'}' => plain(K::RBrace, 1),
        b'(' => plain(K::LParen, 1),
        b')' => plain(K::RParen, 1),
        b'<' => plain(K::Less, 1),
        b'>' => plain(K::Greater, 1),
        b':' => plain(K::Colon, 1),
        b';' => plain(K::Semi, 1),
        b',' => plain(K::Comma, 1),
        b'=' => plain(K::Equal, 1),
        b'?' => plain(K::Question, 1),
        b'#' => {
            // paste operator; `#` + letters may be a preprocessor directive
            // (not a token of the property's list): only the bare `#` is judged
            if n >= 2 && t[1].is_ascii_alphabetic() {
                None
            } else {
                plain(K::Paste, 1)
            }
        }
        b'.' => {
            if n >= 3 && t[1] == b'.' && t[2] == b'.' {
                plain(K::DotDotDot, 3)
            } else if n >= 2 && t[1] == b'.' {
                None
            } else {
                plain(K::Dot, 1)
            }
        }
        _ => None,
    }
}

/// what may follow a token in "a sequence of valid tokens separated by
/// whitespace, line comments or block comments": end of input or a separator
fn sep_or_eof(t: &[u8]) -> bool {
    let n = t.len();
    if n == 0 {
        return true;
    }
    if is_ws(t[0]) {
        return true;
    }
    n >= 2 && t[0] == b'/' && (t[1] == b'/' || t[1] == b'*')
}

/// after a separator: end of input, another separator, or a byte that can start a token
fn tokstart_or_eof(t: &[u8]) -> bool {
    let n = t.len();
    if n == 0 {
        return true;
    }
    let c = t[0];
    c > 0x20 && c < 0x7f
}

fn region_listed(r: Region) -> bool {
    match r {
        Region::Plain => false,
        Region::DigitLeadingIdent => kf::C14_DIGIT_LEADING_IDENT,
        Region::EscapedBackslashBeforeQuote => kf::C14_ESCAPED_BACKSLASH_BEFORE_QUOTE,
        Region::NestedComment => kf::C14_NESTED_BLOCK_COMMENT,
        Region::SignAtEof => kf::C14_SIGN_AT_EOF,
    }
}

// ---------------------------------------------------------------------------
// common judgement of one real step against the reference (C14) and the L0
// cursor contract + Error => message (C01, C02)

#[derive(Clone, Copy, PartialEq, Eq)]
enum Class {
    Any,
    Ws,
    LineComment,
    BlockComment,
    Number,
    Ident,
    Str,
    VarName,
    Code,
    Bang,
    Hash,
}

fn ascii_text<const N: usize>(bytes: &[u8; N], len: usize) -> &str {
    kani::assume(len <= N);
    let mut i = 0;
    while i < N {
        kani::assume(bytes[i] < 0x80);
        i += 1;
    }
    unsafe { std::str::from_utf8_unchecked(&bytes[..len]) }
}

fn judge(text: &str, l: &mut Lexer, kind: TokenKind) {
    judge_at(text, l, kind, 0)
}

/// `text` is the input from the start of the token; the lexer's cursor is `p0` bytes ahead of it
fn judge_at(text: &str, l: &mut Lexer, kind: TokenKind, p0: usize) {
    let t = text.as_bytes();
    kani::assume(l.s.cursor() >= p0);
    let end = l.s.cursor() - p0;
    // --- L0 contract of the lexer (C01/C02/C17)
    assert!(end <= t.len(), "cursor inside the text");
    assert!(text.is_char_boundary(end), "cursor on a char boundary");
    if kind != K::Eof {
        assert!(end > 0, "a non-Eof token consumes at least one byte");
    } else {
        assert!(end == t.len(), "Eof only at the end of the text");
    }
    if kind == K::Error {
        assert!(l.error.is_some(), "Error token has a pending message");
    }
    kani::cover!(kind == K::Error, "I: an Error token is reachable");
    // --- C14
    if let Some(r) = ref_token(t) {
        let follow_ok = if r.kind.is_trivia() { tokstart_or_eof(&t[r.end..]) } else { sep_or_eof(&t[r.end..]) };
        if follow_ok {
            let agree = kind == r.kind && end == r.end && l.error.is_none();
            if region_listed(r.region) {
                match r.region {
                    Region::DigitLeadingIdent => {
                        kani::cover!(!agree, "KF:C14_DIGIT_LEADING_IDENT");
                    }
                    Region::EscapedBackslashBeforeQuote => {
                        kani::cover!(!agree, "KF:C14_ESCAPED_BACKSLASH_BEFORE_QUOTE");
                    }
                    Region::NestedComment => {
                        kani::cover!(!agree, "KF:C14_NESTED_BLOCK_COMMENT");
                    }
                    Region::SignAtEof => {
                        kani::cover!(!agree, "KF:C14_SIGN_AT_EOF");
                    }
                    Region::Plain => {}
                }
            } else {
                assert!(agree, "C14: lexer agrees with the reference lexer on a valid token");
            }
            kani::cover!(agree && r.region == Region::Plain, "W: a valid token is recognised");
        }
    }
}

// ---------------------------------------------------------------------------
// dispatch harness: real next_token, routines replaced by markers

fn expected_dispatch(t: &[u8]) -> (R, usize, char) {
    // (routine, cursor at entry, `c` argument); from the Reference's token classes
    let n = t.len();
    let c = t[0];
    let c1 = if n >= 2 { Some(t[1]) } else { None };
    if c == b' ' || (c >= 0x09 && c <= 0x0d) {
        return (R::Whitespace, 1, '\0');
    }
    if c == b'/' && c1 == Some(b'/') {
        return (R::LineComment, 2, '\0');
    }
    if c == b'/' && c1 == Some(b'*') {
        return (R::BlockComment, 2, '\0');
    }
    if is_digit(c) {
        // a digit-leading identifier goes to identifier(), every other digit start to number()
        if let Some(r) = ref_word(t) {
            if r.kind == K::Id {
                return (R::Identifier, 1, '\0');
            }
        }
        return (R::Number, 1, c as char);
    }
    if c == b'+' || c == b'-' {
        return (R::Number, 1, c as char);
    }
    if is_ualpha(c) {
        return (R::Identifier, 1, '\0');
    }
    if c == b'"' {
        return (R::Str, 1, '\0');
    }
    if c == b'$' {
        return (R::VarName, 1, '\0');
    }
    if c == b'[' && c1 == Some(b'{') {
        return (R::Code, 2, '\0');
    }
    if c == b'!' {
        return (R::Bang, 1, '\0');
    }
    if c == b'#' {
        return (R::Preproc, 1, '\0');
    }
    (R::None, 0, '\0')
}

#[kani::proof]
#[kani::unwind(5)]
#[kani::stub(crate::lexer::Lexer::error, crate::lexer::Lexer::verif_error_stub)]
#[kani::stub(crate::lexer::Lexer::whitespace, crate::lexer::Lexer::m_whitespace)]
#[kani::stub(crate::lexer::Lexer::line_comment, crate::lexer::Lexer::m_line_comment)]
#[kani::stub(crate::lexer::Lexer::block_comment, crate::lexer::Lexer::m_block_comment)]
#[kani::stub(crate::lexer::Lexer::number, crate::lexer::Lexer::m_number)]
#[kani::stub(crate::lexer::Lexer::identifier, crate::lexer::Lexer::m_identifier)]
#[kani::stub(crate::lexer::Lexer::string, crate::lexer::Lexer::m_string)]
#[kani::stub(crate::lexer::Lexer::var_name, crate::lexer::Lexer::m_var_name)]
#[kani::stub(crate::lexer::Lexer::code_fragment, crate::lexer::Lexer::m_code_fragment)]
#[kani::stub(crate::lexer::Lexer::bangoperator, crate::lexer::Lexer::m_bangoperator)]
#[kani::stub(crate::lexer::Lexer::preprocessor, crate::lexer::Lexer::m_preprocessor)]
fn c14c01c02_lexer_dispatch() {
    let bytes: [u8; 3] = kani::any();
    let len: usize = kani::any();
    let text = ascii_text(&bytes, len);
    let t = text.as_bytes();
    let ret: TokenKind = crate::verif_common::any_kind();
    unsafe {
        M_RET = ret;
    }
    let mut l = Lexer::new(text);
    let kind = l.next_token();
    let calls = unsafe { M_CALLS };
    if len == 0 {
        assert!(kind == K::Eof && calls == 0 && l.s.cursor() == 0);
        return;
    }
    let (r, cur, c) = expected_dispatch(t);
    if r != R::None {
        assert!(calls == 1, "exactly one routine runs");
        unsafe {
            assert!(M_ROUTINE == r, "dispatch selects the routine of the token class");
            assert!(M_CURSOR == cur, "routine entered just after the class prefix");
            if r == R::Number {
                assert!(M_START == 0 && M_C == c);
            }
            if r == R::Identifier {
                assert!(M_START == 0);
            }
        }
        assert!(kind == ret, "routine result is returned unchanged");
        kani::cover!(r == R::Code, "W: code fragment routine selected");
        kani::cover!(r == R::Number && c == '-', "W: signed number routed to number()");
    } else {
        assert!(calls == 0, "punctuation is lexed inline");
        judge(text, &mut l, kind);
    }
}

// ---------------------------------------------------------------------------
// routine harnesses: the real routine on the symbolic rest of the text,
// entered exactly as the dispatch harness proved it is entered.

fn routine_step<const N: usize>(class: Class) {
    // the token starts at an ARBITRARY offset p0 (0..=2) after arbitrary text: a routine must
    // not depend on what precedes its token (`Lexer` keeps the whole text and can look back)
    let bytes: [u8; N] = kani::any();
    let len: usize = kani::any();
    let whole = ascii_text(&bytes, len);
    let p0: usize = kani::any();
    kani::assume(p0 <= 2 && p0 < len);
    let t = &whole.as_bytes()[p0..];
    let text = unsafe { std::str::from_utf8_unchecked(t) };
    let mut l = Lexer::new(whole);
    let kind = match class {
        Class::Ws => {
            kani::assume(t[0] == b' ' || (t[0] >= 0x09 && t[0] <= 0x0d));
            l.s.jump(p0 + 1);
            l.whitespace()
        }
        Class::LineComment => {
            kani::assume(t.len() >= 2 && t[0] == b'/' && t[1] == b'/');
            l.s.jump(p0 + 2);
            l.line_comment()
        }
        Class::BlockComment => {
            kani::assume(t.len() >= 2 && t[0] == b'/' && t[1] == b'*');
            l.s.jump(p0 + 2);
            l.block_comment()
        }
        Class::Number => {
            kani::assume(is_digit(t[0]) || t[0] == b'+' || t[0] == b'-');
            // as dispatched: not a digit-leading identifier
            kani::assume(expected_dispatch(t).0 == R::Number);
            l.s.jump(p0 + 1);
            l.number(p0, t[0] as char)
        }
        Class::Ident => {
            kani::assume(is_ualpha(t[0]) || is_digit(t[0]));
            kani::assume(expected_dispatch(t).0 == R::Identifier);
            l.s.jump(p0 + 1);
            l.identifier(p0)
        }
        Class::Str => {
            kani::assume(t[0] == b'"');
            l.s.jump(p0 + 1);
            l.string()
        }
        Class::VarName => {
            kani::assume(t[0] == b'$');
            l.s.jump(p0 + 1);
            l.var_name()
        }
        Class::Code => {
            kani::assume(t.len() >= 2 && t[0] == b'[' && t[1] == b'{');
            l.s.jump(p0 + 2);
            l.code_fragment()
        }
        Class::Bang => {
            kani::assume(t[0] == b'!');
            l.s.jump(p0 + 1);
            l.bangoperator()
        }
        Class::Hash => {
            kani::assume(t[0] == b'#');
            l.s.jump(p0 + 1);
            l.preprocessor()
        }
        Class::Any => {
            l.s.jump(p0);
            l.next_token()
        }
    };
    assert!(l.s.cursor() >= p0 + 1, "C01: the cursor never moves back to or before the start of the token");
    judge_at(text, &mut l, kind, p0);
    if class == Class::Hash {
        // the bounded jump-back lands one byte after the '#', never before it
        if kind == K::Paste {
            assert!(l.s.cursor() == p0 + 1);
        }
    }
    kani::cover!(p0 == 2, "W: token preceded by two bytes of other text");
}

macro_rules! routine_harness {
    ($name:ident, $class:expr, $n:expr, $unwind:expr) => {
        #[kani::proof]
        #[kani::unwind($unwind)]
        #[kani::stub(crate::lexer::Lexer::error, crate::lexer::Lexer::verif_error_stub)]
        fn $name() {
            routine_step::<$n>($class);
        }
    };
}

// quick tier: 6 bytes
routine_harness!(c14c01c02_lex_whitespace_q, Class::Ws, 8, 10);
routine_harness!(c14c01c02_lex_line_comment_q, Class::LineComment, 8, 10);
routine_harness!(c14c01c02_lex_block_comment_q, Class::BlockComment, 10, 12);
routine_harness!(c14c01c02_lex_number_q, Class::Number, 8, 10);
routine_harness!(c14c01c02_lex_identifier_q, Class::Ident, 8, 14);
routine_harness!(c14c01c02_lex_string_q, Class::Str, 8, 10);
routine_harness!(c14c01c02_lex_var_name_q, Class::VarName, 8, 10);
routine_harness!(c14c01c02_lex_code_q, Class::Code, 9, 11);
routine_harness!(c14c01c02_lex_hash_q, Class::Hash, 10, 12);

// ---------------------------------------------------------------------------
// long words over a restricted alphabet: every keyword / bang operator name fits

fn word_text<const N: usize>(bytes: &[u8; N], len: usize, first: u8) -> &str {
    kani::assume(len <= N && len >= 1);
    kani::assume(bytes[0] == first);
    let mut i = 1;
    while i < N {
        let b = bytes[i];
        kani::assume((b >= b'a' && b <= b'z') || (b >= b'0' && b <= b'9') || b == b'_' || b == b' ');
        i += 1;
    }
    unsafe { std::str::from_utf8_unchecked(&bytes[..len]) }
}

fn bang_step<const N: usize>() {
    let bytes: [u8; N] = kani::any();
    let len: usize = kani::any();
    let text = word_text(&bytes, len, b'!');
    let mut l = Lexer::new(text);
    l.s.jump(1);
    let kind = l.bangoperator();
    judge(text, &mut l, kind);
    kani::cover!(kind == K::XListFlatten, "W: !listflatten recognised");
    kani::cover!(kind == K::XCond, "W: !cond recognised");
}

fn keyword_step<const N: usize>() {
    let bytes: [u8; N] = kani::any();
    let len: usize = kani::any();
    kani::assume(bytes[0] >= b'a' && bytes[0] <= b'z');
    let text = word_text(&bytes, len, bytes[0]);
    let mut l = Lexer::new(text);
    l.s.jump(1);
    let kind = l.identifier(0);
    judge(text, &mut l, kind);
    kani::cover!(kind == K::MultiClass, "W: multiclass recognised");
    kani::cover!(kind == K::Id && len == N, "W: long identifier");
}

#[kani::proof]
#[kani::unwind(15)]
#[kani::stub(crate::lexer::Lexer::error, crate::lexer::Lexer::verif_error_stub)]
fn c14c20_lex_bang_words_q() {
    bang_step::<13>();
}

#[kani::proof]
#[kani::unwind(13)]
#[kani::stub(crate::lexer::Lexer::error, crate::lexer::Lexer::verif_error_stub)]
fn c14c20_lex_keyword_words_q() {
    keyword_step::<11>();
}

// fallback tier: 4 bytes (5 for two-byte openers) -- run only when the 6-byte query of an edited tree
// exceeds the memory/time cap, so that short witnesses are still found
routine_harness!(c14c01c02_lex_whitespace_s, Class::Ws, 6, 8);
routine_harness!(c14c01c02_lex_line_comment_s, Class::LineComment, 7, 9);
routine_harness!(c14c01c02_lex_block_comment_s, Class::BlockComment, 7, 9);
routine_harness!(c14c01c02_lex_number_s, Class::Number, 6, 8);
routine_harness!(c14c01c02_lex_identifier_s, Class::Ident, 6, 14);
routine_harness!(c14c01c02_lex_string_s, Class::Str, 6, 8);
routine_harness!(c14c01c02_lex_var_name_s, Class::VarName, 6, 8);
routine_harness!(c14c01c02_lex_code_s, Class::Code, 7, 9);
routine_harness!(c14c01c02_lex_hash_s, Class::Hash, 7, 9);

// thorough tier: 8 bytes (block comments / # : 10)
routine_harness!(c14c01c02_lex_whitespace_t, Class::Ws, 10, 12);
routine_harness!(c14c01c02_lex_line_comment_t, Class::LineComment, 10, 12);
routine_harness!(c14c01c02_lex_block_comment_t, Class::BlockComment, 12, 14);
routine_harness!(c14c01c02_lex_number_t, Class::Number, 9, 11);
routine_harness!(c14c01c02_lex_identifier_t, Class::Ident, 10, 14);
routine_harness!(c14c01c02_lex_string_t, Class::Str, 10, 12);
routine_harness!(c14c01c02_lex_var_name_t, Class::VarName, 10, 12);
routine_harness!(c14c01c02_lex_code_t, Class::Code, 11, 13);
routine_harness!(c14c01c02_lex_hash_t, Class::Hash, 12, 14);

// ---------------------------------------------------------------------------
// C20: the completion vocabulary (tables generated at run time from the real
// Analysis::completion) vs. the lexer

use crate::verif_completion_gen as comp;

fn in_table(w: &[u8], table: &[&[u8]]) -> bool {
    let mut i = 0;
    let mut found = false;
    while i < table.len() {
        if table[i] == w {
            found = true;
        }
        i += 1;
    }
    found
}

/// for EVERY s in [a-z0-9_]{0,12} and EVERY following context (end of input or any byte that
/// cannot continue the word, then one more arbitrary byte): lex("!" + s ...) starts with a
/// bang/cond operator token spanning exactly "!" + s  <=>  s is offered after `!`.  The routine
/// is entered as the dispatch harness proves it is entered for a leading `!`.
#[kani::proof]
#[kani::unwind(17)]
#[kani::stub(crate::lexer::Lexer::error, crate::lexer::Lexer::verif_error_stub)]
fn c20_bang_vocabulary() {
    let bytes: [u8; 15] = kani::any();
    let wlen: usize = kani::any(); // "!" + word
    let extra: usize = kani::any(); // 0..=2 following bytes
    kani::assume(wlen >= 1 && wlen <= 13 && extra <= 2);
    kani::assume(bytes[0] == b'!');
    let mut i = 1;
    while i < 15 {
        let b = bytes[i];
        if i < wlen {
            kani::assume((b >= b'a' && b <= b'z') || (b >= b'0' && b <= b'9') || b == b'_');
        } else {
            kani::assume(b < 0x80);
        }
        i += 1;
    }
    if extra >= 1 {
        // the byte right after the word does not continue it
        let f = bytes[wlen];
        kani::assume(!f.is_ascii_alphanumeric() && f != b'_');
    }
    let len = wlen + extra;
    let text = unsafe { std::str::from_utf8_unchecked(&bytes[..len]) };
    let w = &bytes[1..wlen];
    let mut l = Lexer::new(text);
    l.s.jump(1);
    let kind = l.bangoperator();
    let lexed = (kind.is_bang_operator() || kind.is_cond_operator()) && l.s.cursor() == wlen && l.error.is_none();
    let offered = comp::in_bang(w);
    if offered && !lexed {
        if comp::in_kf_c20_bang_offered_not_lexed(w) {
            kani::cover!(true, "KF:C20_BANG_OFFERED_NOT_LEXED");
        } else {
            assert!(false, "C20: every bang operator offered after `!` is lexed as a bang operator");
        }
    }
    // offered in EVERY `!` context the dump exercises (end of a value, in front of letters, nested)
    let offered_everywhere = comp::in_bang_all(w);
    if lexed && !offered_everywhere {
        if comp::in_kf_c20_bang_lexed_not_offered(w) {
            kani::cover!(true, "KF:C20_BANG_LEXED_NOT_OFFERED");
        } else {
            assert!(false, "C20: every bang operator the lexer accepts is offered after `!`");
        }
    }
    kani::cover!(lexed && offered && wlen >= 11 && extra == 2, "W: a long operator followed by other text is both lexed and offered");
}

/// every offered keyword / type name / boolean is lexed as exactly that keyword token, at the
/// end of the input and before EVERY byte that cannot continue an identifier: for every word w
/// over [a-z0-9_] (<= 10 bytes) and every following context, w offered => lex(w ...) starts with
/// the keyword token of that spelling spanning exactly w
#[kani::proof]
#[kani::unwind(15)]
#[kani::stub(crate::lexer::Lexer::error, crate::lexer::Lexer::verif_error_stub)]
fn c20_keyword_vocabulary() {
    let bytes: [u8; 12] = kani::any();
    let wlen: usize = kani::any();
    let extra: usize = kani::any();
    kani::assume(wlen >= 1 && wlen <= 10 && extra <= 2);
    kani::assume(bytes[0] >= b'a' && bytes[0] <= b'z');
    let mut i = 1;
    while i < 12 {
        let b = bytes[i];
        if i < wlen {
            kani::assume((b >= b'a' && b <= b'z') || (b >= b'0' && b <= b'9') || b == b'_');
        } else {
            kani::assume(b < 0x80);
        }
        i += 1;
    }
    if extra >= 1 {
        let f = bytes[wlen];
        kani::assume(!f.is_ascii_alphanumeric() && f != b'_');
    }
    let text = unsafe { std::str::from_utf8_unchecked(&bytes[..wlen + extra]) };
    let w = &bytes[..wlen];
    let offered = comp::in_toplevel(w) || comp::in_types(w) || comp::in_values(w);
    let mut l = Lexer::new(text);
    l.s.jump(1);
    let kind = l.identifier(0);
    if offered {
        assert!(l.s.cursor() == wlen && l.error.is_none(), "C20: offered word is one token");
        assert!(kind != K::Id && kind != K::Error, "C20: offered keyword is not a plain identifier or an error");
        assert!(kind == ref_keyword(w), "C20: offered keyword is lexed as exactly that keyword");
    }
    kani::cover!(offered && wlen == 10 && extra == 2, "W: the longest offered keyword before other text");
    kani::cover!(offered && extra == 0, "W: an offered keyword at the end of the input");
}

// ---------------------------------------------------------------------------
// non-ASCII text: the L0 cursor contract (inside the text, on a char boundary, progress,
// Error => message) for tokens that start with or contain multi-byte characters.
// First character(s) concrete (so that the dispatch folds), then two symbols of a menu.

fn menu_sym(s: u8) -> ([u8; 4], usize) {
    match s {
        0 => ([b'a', 0, 0, 0], 1),
        1 => ([b' ', 0, 0, 0], 1),
        2 => ([b'\n', 0, 0, 0], 1),
        3 => ([b'"', 0, 0, 0], 1),
        4 => ([b'*', 0, 0, 0], 1),
        5 => ([b'/', 0, 0, 0], 1),
        6 => ([0xC3, 0xA9, 0, 0], 2),       // U+00E9
        7 => ([0xE2, 0x82, 0xAC, 0], 3),    // U+20AC
        8 => ([0xF0, 0x9F, 0x98, 0x80], 4), // U+1F600
        _ => ([0xC2, 0xA0, 0, 0], 2),       // U+00A0 no-break space (Unicode whitespace)
    }
}

fn nonascii_step(first: &[u8], class: Class) {
    let mut buf = [0u8; 16];
    let mut len = 0;
    let mut i = 0;
    while i < first.len() {
        buf[len] = first[i];
        len += 1;
        i += 1;
    }
    let nsym: usize = kani::any();
    kani::assume(nsym <= 2);
    let syms: [u8; 2] = kani::any();
    let mut k = 0;
    while k < 2 {
        kani::assume(syms[k] < 10);
        if k < nsym {
            let (b, l) = menu_sym(syms[k]);
            let mut j = 0;
            while j < 4 {
                if j < l {
                    buf[len + j] = b[j];
                }
                j += 1;
            }
            len += l;
        }
        k += 1;
    }
    let text = unsafe { std::str::from_utf8_unchecked(&buf[..len]) };
    let mut l = Lexer::new(text);
    // routines are entered as the dispatch harness proves they are; a non-ASCII first
    // character goes through the real next_token (the dispatch folds on the concrete char)
    let kind = match class {
        Class::Str => {
            l.s.jump(1);
            l.string()
        }
        Class::LineComment => {
            l.s.jump(2);
            l.line_comment()
        }
        Class::BlockComment => {
            l.s.jump(2);
            l.block_comment()
        }
        Class::Code => {
            l.s.jump(2);
            l.code_fragment()
        }
        Class::Hash => {
            l.s.jump(1);
            l.preprocessor()
        }
        _ => l.next_token(),
    };
    let end = l.s.cursor();
    assert!(end <= len, "C01/C17: cursor inside the text");
    assert!(text.is_char_boundary(end), "C01/C17: cursor on a char boundary");
    assert!(end > 0 && kind != K::Eof, "C02: a token is produced and consumes input");
    if kind == K::Error {
        assert!(l.error.is_some(), "C02: Error token has a pending message");
    }
    kani::cover!(end >= 2, "W: a token of >= 2 bytes");
}

macro_rules! nonascii_harness {
    ($name:ident, $first:expr, $class:expr) => {
        #[kani::proof]
        #[kani::unwind(14)]
        #[kani::stub(crate::lexer::Lexer::error, crate::lexer::Lexer::verif_error_stub)]
        fn $name() {
            nonascii_step($first, $class);
        }
    };
}

// a non-ASCII FIRST character goes through char::is_whitespace / is_alphabetic (Unicode table
// searches): measured 480 s per harness or out of memory, so those four (and `#` + non-ASCII
// letters) are not registered; the native replay battery contains such inputs
nonascii_harness!(c01c02c17_lex_na_2byte, &[0xC3, 0xA9], Class::Any);
nonascii_harness!(c01c02c17_lex_na_3byte, &[0xE2, 0x82, 0xAC], Class::Any);
nonascii_harness!(c01c02c17_lex_na_4byte, &[0xF0, 0x9F, 0x98, 0x80], Class::Any);
nonascii_harness!(c01c02c17_lex_na_nbsp, &[0xC2, 0xA0], Class::Any);
nonascii_harness!(c01c02c17_lex_na_string, b"\"", Class::Str);
nonascii_harness!(c01c02c17_lex_na_line_comment, b"//", Class::LineComment);
nonascii_harness!(c01c02c17_lex_na_block_comment, b"/*", Class::BlockComment);
nonascii_harness!(c01c02c17_lex_na_code, b"[{", Class::Code);
nonascii_harness!(c01c02c17_lex_na_hash, b"#", Class::Hash);
