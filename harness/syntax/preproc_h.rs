// Kani harnesses for crates/syntax/src/preprocessor.rs (child module).
// C15: every preprocessor step equals a reference evaluation of the conditionals.
// C01/C02: L0 contract of PreProcessor<S> given the L0 contract of S.
#![allow(dead_code, unused_imports)]

use super::*;
use crate::token_kind::TokenKind as K;
use crate::verif_common::{any_kind, fixed_random_state, kind_from, SymStream, CAP};
use crate::verif_kf as kf;

impl<T: TokenStream> PreProcessor<T> {
    /// replaces PreProcessor::error: same control effect, no heap copy of the text
    fn verif_error_stub(&mut self, _message: impl Into<EcoString>) -> TokenKind {
        self.error = Some(EcoString::inline("p"));
        TokenKind::Error
    }
}

static mut G_DEFINES: u32 = 0;
static mut G_DEFINED_N: bool = false;

impl<T: TokenStream> PreProcessor<T> {
    /// ghost recorder replacing `define_macro` (= `self.macros.insert(name)`, trusted std) in
    /// the #define step: records how often and with which name it is called
    fn verif_define_stub(&mut self, macro_name: EcoString) {
        unsafe {
            G_DEFINES += 1;
            G_DEFINED_N = macro_name.as_str() == "N";
        }
    }
    fn m_process_if(&mut self, _k: IfKind) -> TokenKind { unsafe { G_DEFINES += 100; } TokenKind::Eof }
    fn m_process_else(&mut self) -> TokenKind { unsafe { G_DEFINES += 100; } TokenKind::Eof }
    fn m_process_endif(&mut self) -> TokenKind { unsafe { G_DEFINES += 100; } TokenKind::Eof }
    fn m_process_define(&mut self) -> TokenKind { unsafe { G_DEFINES += 100; } TokenKind::Eof }
}

fn is_trivia(k: K) -> bool {
    matches!(k, K::Whitespace | K::LineComment | K::BlockComment | K::PreProcessor)
}

/// the directive/token alphabet of the property's quantifier (plus comments: trivia between a
/// directive and its macro name)
fn in_alphabet(k: K) -> bool {
    matches!(
        k,
        K::Ifdef | K::Ifndef | K::Else | K::Endif | K::Define | K::Id | K::Semi | K::Whitespace | K::BlockComment | K::LineComment
    )
}

#[derive(Clone, Copy, PartialEq, Eq)]
enum Exp {
    /// step returns this kind after consuming exactly `consumed` inner tokens
    Tok { kind: K, consumed: usize, defines: bool },
    /// the step must report an error (Error token with a pending message)
    Err(ErrKind),
    /// the input is not well nested here: no claim
    NoClaim,
}

#[derive(Clone, Copy, PartialEq, Eq)]
enum ErrKind {
    MissingName,
    EofInDisabledRegion,
}

fn tok_at(s: &SymStream, i: usize) -> K {
    if i < s.n { s.kinds[i] } else { K::Eof }
}

/// reference: skip a disabled region starting at inner index `i` (depth 1).
/// `stop_at_else`: an `#else` at depth 1 ends the skip (we were in the if-branch).
fn ref_skip(s: &SymStream, mut i: usize, stop_at_else: bool) -> Exp {
    let mut depth = 1u32;
    let mut steps = 0;
    while steps <= CAP {
        steps += 1;
        let t = tok_at(s, i);
        i += 1;
        match t {
            K::Eof => return Exp::Err(ErrKind::EofInDisabledRegion),
            K::Ifdef | K::Ifndef => depth += 1,
            K::Endif => {
                depth -= 1;
                if depth == 0 {
                    return Exp::Tok { kind: K::PreProcessor, consumed: i, defines: false };
                }
            }
            K::Else => {
                if depth == 1 {
                    if stop_at_else {
                        return Exp::Tok { kind: K::PreProcessor, consumed: i, defines: false };
                    }
                    return Exp::NoClaim; // second #else of the same conditional
                }
            }
            _ => {}
        }
    }
    Exp::NoClaim
}

fn ref_name(s: &SymStream) -> (usize, K) {
    // first non-trivia token after the directive
    let mut j = 1;
    let mut steps = 0;
    while steps <= CAP {
        steps += 1;
        let t = tok_at(s, j);
        if !is_trivia(t) {
            return (j, t);
        }
        j += 1;
    }
    (j, K::Eof)
}

/// reference evaluation of ONE step from the state "enabled"; `m_defined`/`n_defined`: macro set
fn ref_step(s: &SymStream, m_defined: bool, n_defined: bool) -> Exp {
    let f = tok_at(s, 0);
    match f {
        K::Ifdef | K::Ifndef => {
            let (j, t) = ref_name(s);
            if t != K::Id {
                return Exp::Err(ErrKind::MissingName);
            }
            let defined = if s.name_n[j] { n_defined } else { m_defined };
            let take = (f == K::Ifdef) == defined;
            if take {
                Exp::Tok { kind: K::PreProcessor, consumed: j + 1, defines: false }
            } else {
                ref_skip(s, j + 1, true)
            }
        }
        K::Else => ref_skip(s, 1, false),
        K::Endif => Exp::Tok { kind: K::PreProcessor, consumed: 1, defines: false },
        K::Define => {
            let (j, t) = ref_name(s);
            if t != K::Id {
                return Exp::Err(ErrKind::MissingName);
            }
            Exp::Tok { kind: K::PreProcessor, consumed: j + 1, defines: true }
        }
        K::Eof => Exp::Tok { kind: K::Eof, consumed: 0, defines: false },
        k => Exp::Tok { kind: k, consumed: 1, defines: false },
    }
}

fn stream_with_first<'a>(first: K, n_suffix: usize) -> SymStream<'a> {
    // first token concrete (so that next_token's match folds), suffix symbolic over the alphabet
    let total = if first == K::Eof { 0 } else { 1 + n_suffix };
    let mut s = SymStream::any(total);
    if total > 0 {
        s.kinds[0] = first;
        let mut i = 1;
        while i < CAP {
            if i < total {
                kani::assume(in_alphabet(s.kinds[i]));
            }
            i += 1;
        }
    }
    s
}

/// one step with the macro set concretely empty
fn step_empty(first: K, n_suffix: usize) {
    unsafe {
        G_DEFINES = 0;
    }
    let s = stream_with_first(first, n_suffix);
    let exp = ref_step(&s, false, false);
    let mut p = PreProcessor::new(s);
    if !unsafe { crate::verif_common::G_STUBS_ON } {
        // native replay (no stubs): start from a set that already holds an unrelated macro, so that
        // "#define ADDS its macro" is observable on the real HashSet
        p.macros.insert(EcoString::inline("Z"));
    }
    let before = p.cursor();
    let kind = p.eat();
    let after = p.cursor();
    // ---- L0 contract of the preprocessor (C01/C02)
    assert!(after >= before, "cursor never moves backwards");
    assert!(after == p.token_stream.cur, "cursor()/text() are forwarded to the inner stream");
    if kind != K::Eof {
        assert!(after > before, "a non-Eof token consumes input");
        assert!(p.token_stream.eats >= 1);
    } else {
        assert!(after == before && p.token_stream.pos == p.token_stream.n, "C01: Eof is delivered only at the end and consumes nothing (the parser never saves Eof)");
    }
    if kind == K::Error {
        assert!(p.error.is_some() || p.token_stream.has_err, "Error token has a pending message");
    }
    // ---- C15
    match exp {
        Exp::Tok { kind: ek, consumed, defines } => {
            assert!(kind == ek, "C15: step returns the kind the reference evaluation selects");
            assert!(p.token_stream.pos == consumed, "C15: step consumes exactly the reference region");
            assert!(after == p.token_stream.offset_of(consumed));
            assert!(p.error.is_none(), "C15: no message is parked behind a non-error token");
            let stubs_on = unsafe { crate::verif_common::G_STUBS_ON };
            if stubs_on {
                assert!(p.macros.is_empty());
            }
            // under the solver define_macro is a ghost recorder; in the native replay (no
            // stubs) the real macro set is inspected instead
            let (nd, dn) = if stubs_on {
                unsafe { (G_DEFINES, G_DEFINED_N) }
            } else {
                assert!(p.macros.contains("Z"), "C15: a step never removes an earlier macro");
                (p.macros.len() as u32 - 1, p.macros.contains("N"))
            };
            if defines {
                assert!(nd == 1, "C15: an enabled #define defines its macro");
                let (j, _) = ref_name(&p.token_stream);
                assert!(dn == p.token_stream.name_n[j], "C15: #define defines the macro it names");
            } else {
                assert!(nd == 0, "C15: only an enabled #define defines a macro");
            }
            if matches!(first, K::Ifdef | K::Ifndef | K::Else) {
                kani::cover!(ek == K::PreProcessor && consumed >= 4, "W: a region of >= 4 tokens is skipped");
            }
        }
        Exp::Err(ErrKind::MissingName) => {
            assert!(kind == K::Error && p.error.is_some(), "C15: directive without macro name is an error");
            kani::cover!(true, "I: missing macro name reachable");
        }
        Exp::Err(ErrKind::EofInDisabledRegion) => {
            let reported = kind == K::Error && p.error.is_some();
            if kf::C15_EOF_IN_DISABLED_REGION {
                kani::cover!(!reported, "KF:C15_EOF_IN_DISABLED_REGION");
            } else {
                assert!(reported, "C15: conditional left unterminated at end of file is an error");
            }
        }
        Exp::NoClaim => {}
    }
}

macro_rules! step_harness {
    ($name:ident, $first:expr, $n:expr, $unwind:expr) => {
        #[kani::proof]
        #[kani::unwind($unwind)]
        #[kani::stub(crate::preprocessor::PreProcessor::error, crate::preprocessor::PreProcessor::verif_error_stub)]
        #[kani::stub(std::hash::RandomState::new, crate::verif_common::fixed_random_state)]
        #[kani::stub(crate::preprocessor::PreProcessor::define_macro, crate::preprocessor::PreProcessor::verif_define_stub)]
        fn $name() {
            step_empty($first, $n);
        }
    };
}

step_harness!(c15c01c02_pp_ifdef_q, K::Ifdef, 5, 10);
step_harness!(c15c01c02_pp_ifndef_q, K::Ifndef, 5, 10);
step_harness!(c15c01c02_pp_else_q, K::Else, 5, 10);
step_harness!(c15c01c02_pp_endif_q, K::Endif, 2, 10);
step_harness!(c15c01c02_pp_define_q, K::Define, 3, 10);
step_harness!(c15c01c02_pp_plain_q, K::Semi, 2, 10);
step_harness!(c15c01c02_pp_eof_q, K::Eof, 0, 10);

step_harness!(c15c01c02_pp_ifdef_t, K::Ifdef, 7, 10);
step_harness!(c15c01c02_pp_ifndef_t, K::Ifndef, 7, 10);
step_harness!(c15c01c02_pp_else_t, K::Else, 7, 10);

/// pass-through of every non-directive kind (all kinds), and Error => message.
/// The four directive arms are replaced by markers that must not run.
#[kani::proof]
#[kani::unwind(10)]
#[kani::stub(crate::preprocessor::PreProcessor::error, crate::preprocessor::PreProcessor::verif_error_stub)]
#[kani::stub(std::hash::RandomState::new, crate::verif_common::fixed_random_state)]
#[kani::stub(crate::preprocessor::PreProcessor::process_if, crate::preprocessor::PreProcessor::m_process_if)]
#[kani::stub(crate::preprocessor::PreProcessor::process_else, crate::preprocessor::PreProcessor::m_process_else)]
#[kani::stub(crate::preprocessor::PreProcessor::process_endif, crate::preprocessor::PreProcessor::m_process_endif)]
#[kani::stub(crate::preprocessor::PreProcessor::process_define, crate::preprocessor::PreProcessor::m_process_define)]
fn c15c01c02_pp_passthrough() {
    let s = SymStream::any(2);
    let k0 = s.kinds[0];
    kani::assume(!matches!(k0, K::Ifdef | K::Ifndef | K::Else | K::Endif | K::Define));
    let w0 = s.widths[0] as usize;
    let mut p = PreProcessor::new(s);
    let kind = p.eat();
    assert!(unsafe { G_DEFINES } == 0, "no directive routine runs for a non-directive token");
    assert!(kind == k0 && p.cursor() == w0 && p.token_stream.pos == 1, "C15: other tokens pass through unchanged");
    if kind == K::Error {
        assert!(p.take_error().is_some(), "Error token has a pending message");
    }
    kani::cover!(kind == K::Error, "W: inner Error passes through");
}

/// "left unterminated while enabled": `#ifndef M` (taken, set empty), j plain tokens, Eof.
/// Somewhere before the stream is exhausted an error must be reported.  All kinds concrete
/// (every step folds to one arm), widths symbolic.
fn unterminated_enabled(j: usize) {
    let n = 2 + j;
    let mut s = SymStream::any(n);
    s.kinds[0] = K::Ifndef;
    s.kinds[1] = K::Id;
    let mut i = 2;
    while i < CAP {
        if i < n {
            s.kinds[i] = K::Semi;
        }
        i += 1;
    }
    let mut p = PreProcessor::new(s);
    let mut errors = 0;
    let mut steps = 0;
    let mut saw_eof = false;
    while steps < n + 1 {
        steps += 1;
        let k = p.eat();
        if k == K::Error && p.take_error().is_some() {
            errors += 1;
        }
        if k == K::Eof {
            saw_eof = true;
            break;
        }
    }
    assert!(saw_eof, "the stream ends");
    if kf::C15_UNTERMINATED_ENABLED_CONDITIONAL {
        kani::cover!(errors == 0, "KF:C15_UNTERMINATED_ENABLED_CONDITIONAL");
    } else {
        assert!(errors >= 1, "C15: conditional left unterminated at end of file is an error");
    }
}

#[kani::proof]
#[kani::unwind(10)]
#[kani::stub(crate::preprocessor::PreProcessor::error, crate::preprocessor::PreProcessor::verif_error_stub)]
#[kani::stub(std::hash::RandomState::new, crate::verif_common::fixed_random_state)]
fn c15_pp_unterminated_enabled() {
    unterminated_enabled(0);
    unterminated_enabled(2);
}

// ---------------------------------------------------------------------------
// steps with a NON-empty macro set {M} (one real HashSet insert with a concrete key, then real
// lookups of "M" / "N"): the (ifdef, defined) and (ifndef, defined) cases that the empty-set
// steps cannot reach.  Minutes per harness (hashing): thorough tier.

fn step_defined(first: K, n_suffix: usize) {
    unsafe {
        G_DEFINES = 0;
    }
    let s = stream_with_first(first, n_suffix);
    let exp = ref_step(&s, true, false);
    let mut p = PreProcessor::new(s);
    p.macros.insert(EcoString::inline("M"));
    let kind = p.eat();
    match exp {
        Exp::Tok { kind: ek, consumed, .. } => {
            assert!(kind == ek, "C15: step returns the kind the reference evaluation selects (M defined)");
            assert!(p.token_stream.pos == consumed, "C15: step consumes exactly the reference region (M defined)");
            assert!(p.error.is_none());
            kani::cover!(consumed >= 3, "W: a region is skipped although a macro is defined");
        }
        Exp::Err(_) => {
            assert!(kind == K::Error && p.error.is_some(), "C15: error reported (M defined)");
        }
        Exp::NoClaim => {}
    }
    std::mem::forget(p);
}

macro_rules! defined_harness {
    ($name:ident, $first:expr, $n:expr) => {
        #[kani::proof]
        #[kani::unwind(10)]
        #[kani::stub(crate::preprocessor::PreProcessor::error, crate::preprocessor::PreProcessor::verif_error_stub)]
        #[kani::stub(std::hash::RandomState::new, crate::verif_common::fixed_random_state)]
        fn $name() {
            step_defined($first, $n);
        }
    };
}

defined_harness!(c15_pp_ifdef_defined_t, K::Ifdef, 3);
defined_harness!(c15_pp_ifndef_defined_t, K::Ifndef, 3);


/// fallback for the #define step when the symbolic query is out of reach on an edited tree:
/// fully concrete kinds and macro name (`#define M`), widths symbolic
#[kani::proof]
#[kani::unwind(10)]
#[kani::stub(crate::preprocessor::PreProcessor::error, crate::preprocessor::PreProcessor::verif_error_stub)]
#[kani::stub(std::hash::RandomState::new, crate::verif_common::fixed_random_state)]
#[kani::stub(crate::preprocessor::PreProcessor::define_macro, crate::preprocessor::PreProcessor::verif_define_stub)]
fn c15c01c02_pp_define_s() {
    unsafe {
        G_DEFINES = 0;
    }
    let mut s = SymStream::any(2);
    s.kinds[0] = K::Define;
    s.kinds[1] = K::Id;
    s.name_n[1] = false;
    let mut p = PreProcessor::new(s);
    let stubs_on = unsafe { crate::verif_common::G_STUBS_ON };
    if !stubs_on {
        p.macros.insert(EcoString::inline("Z"));
    }
    let kind = p.eat();
    assert!(kind == K::PreProcessor && p.token_stream.pos == 2 && p.error.is_none(), "C15: `#define M` is one trivia token");
    if stubs_on {
        assert!(unsafe { G_DEFINES } == 1 && p.macros.is_empty(), "C15: an enabled #define defines its macro through define_macro and touches nothing else");
    } else {
        assert!(p.macros.contains("Z") && p.macros.contains("M") && p.macros.len() == 2, "C15: #define adds its macro and keeps earlier ones");
    }
    std::mem::forget(p);
}
