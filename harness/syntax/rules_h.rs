// Kani harnesses for crates/syntax/src/grammar.rs and grammar/*.rs (child module of
// `grammar`, sees the pub(super) rule functions and tables): level L2.
#![allow(dead_code, unused_imports, static_mut_refs)]

use super::*;
use crate::parser::verif_parser_h as l1;
use crate::parser::verif_parser_h::{is_recover, is_type_first, is_value_start};
use crate::parser::ParserBase;
use crate::token_kind::TokenKind as K;
use crate::verif_common::{any_kind, kind_from, SymStream, CAP};

macro_rules! l2_harness {
    ($name:ident, $unwind:expr, $body:block) => {
        #[kani::proof]
        #[kani::unwind($unwind)]
        #[kani::stub(rowan::GreenNodeBuilder::token, crate::parser::verif_parser_h::g_token)]
        #[kani::stub(rowan::GreenNodeBuilder::start_node, crate::parser::verif_parser_h::g_start_node)]
        #[kani::stub(rowan::GreenNodeBuilder::finish_node, crate::parser::verif_parser_h::g_finish_node)]
        #[kani::stub(rowan::GreenNodeBuilder::checkpoint, crate::parser::verif_parser_h::g_checkpoint)]
        #[kani::stub(rowan::GreenNodeBuilder::start_node_at, crate::parser::verif_parser_h::g_start_node_at)]
        #[kani::stub(crate::parser::ParserBase::error, crate::parser::ParserBase::verif_error_stub)]
        fn $name() $body
    };
}

// at_set on the real tables == the summaries used by the units
l2_harness!(c02c04_l1_at_set_tables, 70, {
    let p = l1::any_state(1);
    let k = p.peek();
    assert!(p.at_set(&value::VALUE_START) == is_value_start(k), "VALUE_START == summary");
    assert!(p.at_set(&r#type::TYPE_FIRST_TOKENS) == is_type_first(k), "TYPE_FIRST_TOKENS == summary");
    assert!(p.at_set(&RECOVER_TOKENS) == is_recover(k), "RECOVER_TOKENS == summary");
    assert!(p.at(k) && p.eof() == (k == K::Eof));
    std::mem::forget(p);
});
