// Kani harnesses for crates/syntax/src/grammar.rs and grammar/*.rs (child module of
// `grammar`, sees the pub(super) rule functions and tables): level L2.
#![allow(dead_code, unused_imports, static_mut_refs)]

use super::*;
use crate::parser::verif_parser_h as l1;
use crate::parser::verif_parser_h::{is_recover, is_type_first, is_value_start};
use crate::parser::ParserBase;
use crate::token_kind::TokenKind as K;
use crate::verif_common::{any_kind, kind_from, SymStream, CAP};

macro_rules! l2_harness {
    ($name:ident, $unwind:expr, $body:block) => {
        #[kani::proof]
        #[kani::unwind($unwind)]
        #[kani::stub(rowan::GreenNodeBuilder::token, crate::parser::verif_parser_h::g_token)]
        #[kani::stub(rowan::GreenNodeBuilder::start_node, crate::parser::verif_parser_h::g_start_node)]
        #[kani::stub(rowan::GreenNodeBuilder::finish_node, crate::parser::verif_parser_h::g_finish_node)]
        #[kani::stub(rowan::GreenNodeBuilder::checkpoint, crate::parser::verif_parser_h::g_checkpoint)]
        #[kani::stub(rowan::GreenNodeBuilder::start_node_at, crate::parser::verif_parser_h::g_start_node_at)]
        #[kani::stub(crate::parser::ParserBase::error, crate::parser::ParserBase::verif_error_stub)]
        fn $name() $body
    };
}

// at_set on the real tables == the summaries used by the units
l2_harness!(c02c04_l1_at_set_tables, 70, {
    let p = l1::any_state(1);
    let k = p.peek();
    assert!(p.at_set(&value::VALUE_START) == is_value_start(k), "VALUE_START == summary");
    assert!(p.at_set(&type_::TYPE_FIRST_TOKENS) == is_type_first(k), "TYPE_FIRST_TOKENS == summary");
    assert!(p.at_set(&RECOVER_TOKENS) == is_recover(k), "RECOVER_TOKENS == summary");
    assert!(p.at(k) && p.eof() == (k == K::Eof));
    std::mem::forget(p);
});

// ---------------------------------------------------------------------------
// L2 runtime: callee contracts and the unit judgement.  The tables (FIRST/CONT sets, NFAs of
// the documented right-hand sides, stub functions, unit harnesses) are generated from
// lib/grammar.py into rules_gen.rs at run time.

use crate::parser::{CompletedMarker, Parser};

pub struct RuleInfo {
    pub id: u8,
    pub nullable: bool,
    /// the rule always consumes at least one token unless the look-ahead is Eof
    pub progress: bool,
}

/// generative mode: the stream is a sentence of the unit's rule (assumed through the NFA), so
/// every callee placeholder is well formed: contracts answer ok / empty deterministically
pub static mut G_GMODE: bool = false;

/// contract of a callee rule R, standing in for its real body:
///   ok   : look-ahead in FIRST(R); one token is consumed and stands for a whole well-formed R;
///          afterwards the look-ahead cannot continue R (maximal munch)
///   empty: (nullable R only) nothing consumed, no error, look-ahead not in FIRST(R)
///   fail : >= 1 error; consumes one token if R guarantees progress, else 0 or 1 (never a
///          recovery token or Eof); error-suppression flag arbitrary afterwards
/// returns true for ok/empty.  (closures, not fn pointers: CBMC expands an indirect call into a
/// switch over every function of that type)
#[inline(always)]
pub fn contract(p: &mut Parser, r: &RuleInfo, first: impl Fn(K) -> bool, cont: impl Fn(K) -> bool) -> bool {
    let la = p.peek();
    let gmode = unsafe { G_GMODE };
    let mut choice: u8 = kani::any();
    kani::assume(choice < 3);
    if gmode {
        choice = if first(la) { 0 } else if r.nullable { 1 } else { 2 };
    }
    if choice == 0 {
        kani::assume(first(la));
        l1::log_event(l1::EV_OK, r.id, la as u8);
        unsafe {
            l1::G_IN_CONTRACT = true;
        }
        p.eat();
        unsafe {
            l1::G_IN_CONTRACT = false;
        }
        kani::assume(!cont(p.peek()));
        return true;
    }
    if choice == 1 {
        kani::assume(r.nullable);
        kani::assume(!first(la));
        return true;
    }
    // a rule that may derive the empty string / decline only fails after it has entered one of
    // its alternatives
    if r.nullable {
        kani::assume(first(la));
    }
    unsafe {
        l1::G_ERRS += 1;
    }
    l1::log_event(l1::EV_FAIL, r.id, la as u8);
    let eat_one: bool = kani::any();
    let may_eat = la != K::Eof && (r.progress || !is_recover(la));
    // a rule entered with a look-ahead of its FIRST set consumes at least that token (each
    // unit proves this about its own rule)
    if ((r.progress || first(la)) && la != K::Eof) || (eat_one && may_eat) {
        unsafe {
            l1::G_IN_CONTRACT = true;
        }
        p.eat();
        unsafe {
            l1::G_IN_CONTRACT = false;
        }
    }
    let ae: bool = kani::any();
    l1::l2_set_after_error(p, ae);
    false
}

pub fn marker(ok: bool) -> CompletedMarker {
    if ok { CompletedMarker::Success } else { CompletedMarker::Fail }
}

/// judgement after the real rule function returned (recogniser mode): `accepted` = the
/// documented right-hand side accepts the sequence of tokens / callee placeholders consumed
pub fn unit_judge(p: &mut Parser, accepted: bool, viable: bool, progress: bool, la0_in_first: bool, entry_after_error: bool, la0: K, kf_region: u8) {
    let errs = unsafe { l1::G_ERRS };
    let nev = unsafe { l1::G_NEV };
    unsafe {
        assert!(l1::G_DEPTH == 0 && l1::G_MIN_DEPTH >= 0, "C02/C04: node events are balanced");
    }
    assert!(l1::inv(p), "C01: the unit leaves the parser in a lossless state");
    assert!(nev <= l1::EVCAP, "event log large enough");
    if !entry_after_error {
        if kf_region != 0 {
            let mismatch = (errs == 0) != accepted;
            kani::cover!(mismatch && kf_region == 1, "KF:C04_DAG_OPERATOR_RESTRICTED");
            kani::cover!(mismatch && kf_region == 2, "KF:C04_COND_WITHOUT_CLAUSE");
            kani::cover!(mismatch && kf_region == 3, "KF:C04_SLICE_ELEMENT_SECOND_VALUE");
        } else {
            if errs == 0 {
                // a rule cut short by the end of input may stop silently on a viable prefix (the
                // `while !p.eof()` loops): the enclosing rule then misses a required token
                assert!(accepted || (p.eof() && viable), "C04: zero syntax errors only if the consumed sequence matches the documented right-hand side");
            }
            if accepted {
                assert!(errs == 0, "C04: a consumed sequence matching the documented right-hand side yields no syntax error");
            }
        }
    }
    if (progress || la0_in_first) && la0 != K::Eof {
        assert!(l1::l2_consumed(p) >= 1, "C02: the rule consumes at least one token when entered with a look-ahead of its FIRST set");
    }
    kani::cover!(errs == 0 && accepted && nev >= 2, "I: an accepted sentence with >= 2 constituents");
    kani::cover!(errs == 0 && accepted, "W: an accepted sentence");
    kani::cover!(errs > 0, "W: an error path");
}

/// judgement in generative mode: the first ns tokens of the stream are a sentence of the rule
/// and the following token (if any) cannot continue it
pub fn gen_judge(p: &mut Parser, ns: usize, kf_region: u8) {
    let errs = unsafe { l1::G_ERRS };
    unsafe {
        assert!(l1::G_DEPTH == 0 && l1::G_MIN_DEPTH >= 0, "C02/C04: node events are balanced");
    }
    let all = l1::l2_consumed(p) == ns;
    if kf_region != 0 {
        let mismatch = errs > 0 || !all;
        kani::cover!(mismatch && kf_region == 1, "KF:C04_DAG_OPERATOR_RESTRICTED");
        kani::cover!(mismatch && kf_region == 2, "KF:C04_COND_WITHOUT_CLAUSE");
        kani::cover!(mismatch && kf_region == 3, "KF:C04_SLICE_ELEMENT_SECOND_VALUE");
    } else {
        assert!(errs == 0, "C04: every sentence of the documented rule parses with zero syntax errors");
        assert!(all, "C04: the rule function consumes exactly the sentence (and nothing of what follows it)");
    }
    kani::cover!(ns >= 3, "I: a sentence of >= 3 constituents");
    kani::cover!(ns >= 1, "W: a non-empty sentence");
    kani::cover!(ns < l1::l2_ntok(p), "I: a sentence followed by another token");
}

// known-finding regions (narrow predicates over the symbolic input), see known_findings.json
use crate::verif_kf as kf;

/// documented `Dag ::= "(" DagArg DagArgList? ")"`, but the parser (like llvm-tblgen) only
/// accepts an identifier, `?`, `!cast` or `!getdagop` as the first token of the operator
pub fn kf_region_dag(p: &Parser) -> u8 {
    let k1 = l1::l2_kind_at(p, 1);
    let inside = kf::C04_DAG_OPERATOR_RESTRICTED
        && l1::l2_kind_at(p, 0) == K::LParen
        && (gen::first_DagArg)(k1)
        && !matches!(k1, K::Id | K::XCast | K::Question | K::XGetDagOp);
    if inside { 1 } else { 0 }
}

/// documented `CondOperator ::= CONDOP "(" CondClause ("," CondClause)* ")"`, but `!cond()` is accepted
pub fn kf_region_cond_operator(p: &Parser) -> u8 {
    let inside = kf::C04_COND_WITHOUT_CLAUSE
        && l1::l2_kind_at(p, 0) == K::XCond
        && l1::l2_kind_at(p, 1) == K::LParen
        && l1::l2_kind_at(p, 2) == K::RParen;
    if inside { 2 } else { 0 }
}

/// documented `SliceElement ::= Value | Value "..." Value | Value "-" Value | Value Integer`,
/// but any Value is accepted as the second element (`x[1 "s"]` parses clean)
pub fn kf_region_slice_element(p: &Parser) -> u8 {
    let k1 = l1::l2_kind_at(p, 1);
    // the second element is parsed through value(): whatever starts a value is accepted, and a
    // placeholder starting with an integer stands for any value (`1{2}`), not just an Integer
    if kf::C04_SLICE_ELEMENT_SECOND_VALUE && is_value_start(k1) { 3 } else { 0 }
}

include!("rules_gen.rs");
