// shared helpers for the syntax-crate harnesses (module `crate::verif_common`)
#![allow(dead_code)]
use crate::token_kind::TokenKind;

pub const LAST_KIND: u8 = TokenKind::Define as u8;

/// an arbitrary TokenKind (fieldless enum, discriminants 0..=Define)
pub fn any_kind() -> TokenKind {
    let v: u8 = kani::any();
    kani::assume(v <= LAST_KIND);
    unsafe { std::mem::transmute::<u8, TokenKind>(v) }
}

pub fn kind_from(v: u8) -> TokenKind {
    assert!(v <= LAST_KIND);
    unsafe { std::mem::transmute::<u8, TokenKind>(v) }
}

// ---------------------------------------------------------------------------
// SymStream: a TokenStream that yields an arbitrary (kind, width) sequence
// satisfying exactly the L0 contract, then Eof forever.

use crate::token_stream::TokenStream;
use ecow::EcoString;
use std::ops::Range;

pub const CAP: usize = 8;

/// the range most recently requested through TokenStream::text (ghost)
pub static mut G_TEXT_RANGE: (usize, usize) = (0, 0);

pub struct SymStream<'a> {
    pub kinds: [TokenKind; CAP],
    pub widths: [u8; CAP],
    /// which of the two macro names an Id token spells (false = "M", true = "N")
    pub name_n: [bool; CAP],
    pub n: usize,
    pub pos: usize,
    pub cur: usize,
    pub has_err: bool,
    pub last_name_n: bool,
    pub eats: u32,
    /// Eof has been delivered at least once
    pub eof_seen: bool,
    pub _p: std::marker::PhantomData<&'a ()>,
}

impl<'a> SymStream<'a> {
    /// n tokens of arbitrary non-Eof kind, widths 1..=2
    pub fn any(n: usize) -> Self {
        assert!(n <= CAP);
        let mut kinds = [TokenKind::Eof; CAP];
        let mut widths = [0u8; CAP];
        let mut name_n = [false; CAP];
        // unrolled (CAP = 8): harness loops must not dictate the unwinding bound of the units
        macro_rules! slot {
            ($i:expr) => {
                if $i < n {
                    let k = any_kind();
                    kani::assume(k != TokenKind::Eof);
                    kinds[$i] = k;
                    let w: u8 = kani::any();
                    kani::assume(w >= 1 && w <= 2);
                    widths[$i] = w;
                    name_n[$i] = kani::any();
                }
            };
        }
        slot!(0); slot!(1); slot!(2); slot!(3); slot!(4); slot!(5); slot!(6); slot!(7);
        SymStream { kinds, widths, name_n, n, pos: 0, cur: 0, has_err: false, last_name_n: false, eats: 0,
                    eof_seen: false, _p: std::marker::PhantomData }
    }
    pub fn offset_of(&self, idx: usize) -> usize {
        let mut o = 0usize;
        macro_rules! slot {
            ($i:expr) => {
                if $i < idx && $i < self.n {
                    o += self.widths[$i] as usize;
                }
            };
        }
        slot!(0); slot!(1); slot!(2); slot!(3); slot!(4); slot!(5); slot!(6); slot!(7);
        o
    }
}

impl<'a> TokenStream for SymStream<'a> {
    fn eat(&mut self) -> TokenKind {
        self.eats += 1;
        if self.pos >= self.n {
            self.eof_seen = true;
            return TokenKind::Eof;
        }
        let k = self.kinds[self.pos];
        self.cur += self.widths[self.pos] as usize;
        self.last_name_n = self.name_n[self.pos];
        self.pos += 1;
        if k == TokenKind::Error {
            self.has_err = true;
        }
        k
    }
    fn cursor(&self) -> usize {
        self.cur
    }
    fn text(&self, range: Range<usize>) -> &str {
        unsafe {
            G_TEXT_RANGE = (range.start, range.end);
        }
        if self.last_name_n { "N" } else { "M" }
    }
    fn take_error(&mut self) -> Option<EcoString> {
        if self.has_err {
            self.has_err = false;
            Some(EcoString::inline("e"))
        } else {
            None
        }
    }
}

/// true while running under the solver with stubs applied (set by the RandomState stub);
/// false in kani's native concrete playback, where no stub is applied
pub static mut G_STUBS_ON: bool = false;

pub fn fixed_random_state() -> std::hash::RandomState {
    unsafe {
        G_STUBS_ON = true;
    }
    unsafe { std::mem::transmute::<[u64; 2], std::hash::RandomState>([0u64; 2]) }
}
