// shared helpers for the syntax-crate harnesses (module `crate::verif_common`)
#![allow(dead_code)]
use crate::token_kind::TokenKind;

pub const LAST_KIND: u8 = TokenKind::Define as u8;

/// an arbitrary TokenKind (fieldless enum, discriminants 0..=Define)
pub fn any_kind() -> TokenKind {
    let v: u8 = kani::any();
    kani::assume(v <= LAST_KIND);
    unsafe { std::mem::transmute::<u8, TokenKind>(v) }
}

pub fn kind_from(v: u8) -> TokenKind {
    assert!(v <= LAST_KIND);
    unsafe { std::mem::transmute::<u8, TokenKind>(v) }
}
