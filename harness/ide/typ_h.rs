// Kani harnesses for C13 (kernel): Type::can_be_casted_to == reference compatibility
// relation, for all pairs of record-free types of depth <= 2.  Child module of
// crates/ide/src/symbol_map/typ.rs.
#![allow(dead_code, unused_imports)]

use super::*;

/// true under the solver (stubs applied); false in kani's native playback (no stubs)
static mut G_STUBS_ON: bool = false;

pub fn fixed_random_state() -> std::hash::RandomState {
    unsafe {
        G_STUBS_ON = true;
    }
    unsafe { std::mem::transmute::<[u64; 2], std::hash::RandomState>([0u64; 2]) }
}

/// an arbitrary record-free type of nesting depth <= depth
fn any_type(depth: u32) -> Type {
    let tag: u8 = kani::any();
    kani::assume(tag < 10);
    match tag {
        0 => Type::Bit,
        1 => Type::Int,
        2 => Type::String,
        3 => Type::Code,
        4 => Type::Dag,
        5 => {
            let n: usize = kani::any();
            kani::assume(n <= 3);
            Type::Bits(n)
        }
        6 => {
            if depth == 0 {
                Type::List(Box::new(Type::Int))
            } else {
                Type::List(Box::new(any_type(depth - 1)))
            }
        }
        7 => Type::Uninitialized,
        8 => Type::Unknown,
        _ => Type::Any,
    }
}

/// reference relation, from the TableGen Programmer's Reference: `?` and the empty-list
/// element type are wildcards; bit <-> int; int <-> bits<n>; string <-> code; lists are
/// covariant; otherwise the types must be identical.
fn ref_compatible(a: &Type, b: &Type) -> bool {
    if matches!(a, Type::Uninitialized | Type::Any) || matches!(b, Type::Uninitialized | Type::Any) {
        return true;
    }
    match (a, b) {
        (Type::Int, Type::Bit) | (Type::Bit, Type::Int) => true,
        (Type::Int, Type::Bits(_)) | (Type::Bits(_), Type::Int) => true,
        (Type::String, Type::Code) | (Type::Code, Type::String) => true,
        (Type::List(x), Type::List(y)) => ref_compatible(x, y),
        (Type::Bit, Type::Bit)
        | (Type::Int, Type::Int)
        | (Type::String, Type::String)
        | (Type::Code, Type::Code)
        | (Type::Dag, Type::Dag)
        | (Type::Unknown, Type::Unknown) => true,
        (Type::Bits(n), Type::Bits(m)) => n == m,
        _ => false,
    }
}

fn depth_of(t: &Type) -> u32 {
    match t {
        Type::List(x) => 1 + depth_of(x),
        _ => 0,
    }
}

#[kani::proof]
#[kani::unwind(5)]
#[kani::stub(std::hash::RandomState::new, fixed_random_state)]
fn c13_cast_relation_q() {
    let a = any_type(2);
    let b = any_type(2);
    let sm = SymbolMap::default();
    let got = a.can_be_casted_to(&sm, &b);
    assert!(got == ref_compatible(&a, &b), "C13: can_be_casted_to equals the reference compatibility relation");
    kani::cover!(got && depth_of(&a) == 2 && depth_of(&b) == 2, "W: compatible nested lists");
    kani::cover!(!got && depth_of(&a) == 2 && depth_of(&b) == 2, "W: incompatible nested lists");
    // helper predicates used by the operator checks
    assert!(a.is_bits() == matches!(a, Type::Bits(_) | Type::Uninitialized));
    assert!(a.is_list() == matches!(a, Type::List(_) | Type::Uninitialized));
    match (&a, a.element_typ()) {
        (Type::Bits(_), Some(Type::Bit)) => {}
        (Type::List(x), Some(e)) => assert!(**x == e, "element type of a list"),
        (Type::Bits(_), _) | (Type::List(_), _) => assert!(false, "element type missing"),
        (_, e) => assert!(e.is_none()),
    }
    std::mem::forget(a);
    std::mem::forget(b);
    std::mem::forget(sm);
}

#[kani::proof]
#[kani::unwind(6)]
#[kani::stub(std::hash::RandomState::new, fixed_random_state)]
fn c13_cast_relation_t() {
    let a = any_type(3);
    let b = any_type(3);
    let sm = SymbolMap::default();
    let got = a.can_be_casted_to(&sm, &b);
    assert!(got == ref_compatible(&a, &b), "C13: can_be_casted_to equals the reference compatibility relation");
    kani::cover!(got && depth_of(&a) == 3 && depth_of(&b) == 3, "W: compatible nested lists");
    std::mem::forget(a);
    std::mem::forget(b);
    std::mem::forget(sm);
}

// ---------------------------------------------------------------------------
// record types: a class hierarchy of 3 records with symbolic (acyclic) parent edges, built
// directly in the arena (no hash-map operation is involved in is_subclass_of)

use crate::file_system::{FileId, FileRange};
use crate::symbol_map::record::{Record, RecordId, RecordKind};
use id_arena::Arena;
use syntax::parser::TextRange;

struct Hier {
    ids: [RecordId; 3],
    e10: bool, // record 1 has parent 0
    e20: bool,
    e21: bool,
}

fn any_hierarchy() -> (SymbolMap, Hier) {
    let loc = FileRange::new(FileId(0), TextRange::empty(0.into()));
    let mut arena: Arena<Record> = Arena::new();
    let r0 = arena.alloc(Record::new("A".into(), RecordKind::Class, loc));
    let r1 = arena.alloc(Record::new("B".into(), RecordKind::Class, loc));
    let r2 = arena.alloc(Record::new("C".into(), RecordKind::Class, loc));
    let (e10, e20, e21): (bool, bool, bool) = (kani::any(), kani::any(), kani::any());
    if e10 {
        arena[r1].add_parent(r0);
    }
    // both orders of C's parent list
    let c_order: bool = kani::any();
    if c_order {
        if e20 {
            arena[r2].add_parent(r0);
        }
        if e21 {
            arena[r2].add_parent(r1);
        }
    } else {
        if e21 {
            arena[r2].add_parent(r1);
        }
        if e20 {
            arena[r2].add_parent(r0);
        }
    }
    let sm = SymbolMap { record_list: arena, ..Default::default() };
    (sm, Hier { ids: [r0, r1, r2], e10, e20, e21 })
}

fn is_sub(h: &Hier, a: usize, b: usize) -> bool {
    // reference: a == b or b reachable from a through parent edges
    if a == b {
        return true;
    }
    match (a, b) {
        (1, 0) => h.e10,
        (2, 1) => h.e21,
        (2, 0) => h.e20 || (h.e21 && h.e10),
        _ => false,
    }
}

/// type over {int, string, ?, record i, list<..>} of depth <= depth; returns the type and, for the
/// reference, a compact description: (list nesting, leaf) with leaf 0..=2 record index, 3 int,
/// 4 string, 5 uninitialized
fn any_rec_type(h: &Hier, depth: u32) -> (Type, u32, u8) {
    let nest: u32 = kani::any();
    kani::assume(nest <= depth);
    let leaf: u8 = kani::any();
    kani::assume(leaf <= 5);
    let mut t = match leaf {
        0 | 1 | 2 => Type::Record(h.ids[leaf as usize], "R".into()),
        3 => Type::Int,
        4 => Type::String,
        _ => Type::Uninitialized,
    };
    let mut i = 0;
    while i < 2 {
        if i < nest {
            t = Type::List(Box::new(t));
        }
        i += 1;
    }
    (t, nest, leaf)
}

fn ref_rec_compatible(h: &Hier, a: (u32, u8), b: (u32, u8)) -> bool {
    // `?` at any level is a wildcard for whatever is at the same level on the other side
    let (na, la) = a;
    let (nb, lb) = b;
    if la == 5 && na <= nb {
        return true;
    }
    if lb == 5 && nb <= na {
        return true;
    }
    if na != nb {
        return false;
    }
    if la <= 2 && lb <= 2 {
        return is_sub(h, la as usize, lb as usize);
    }
    la == lb
}

#[kani::proof]
#[kani::unwind(6)]
#[kani::stub(std::hash::RandomState::new, fixed_random_state)]
fn c13_cast_relation_records() {
    let (sm, h) = any_hierarchy();
    let (a, na, la) = any_rec_type(&h, 2);
    let (b, nb, lb) = any_rec_type(&h, 2);
    let got = a.can_be_casted_to(&sm, &b);
    let want = ref_rec_compatible(&h, (na, la), (nb, lb));
    assert!(got == want, "C13: record types are compatible exactly along the class hierarchy (lists covariant)");
    kani::cover!(got && la == 2 && lb == 0 && !h.e20 && na == 1, "W: list<C> to list<A> through B");
    kani::cover!(!got && la == 0 && lb == 2 && na == 1 && nb == 1, "W: list<A> is not list<C>");
    std::mem::forget(a);
    std::mem::forget(b);
    std::mem::forget(sm);
}


// ---------------------------------------------------------------------------
// record pairs with the subclass test abstracted: Record::is_subclass_of is replaced by an
// arbitrary (uninterpreted) relation over three classes; decides how can_be_casted_to USES it
// (direction, identity short-cut, list covariance).  The relation itself (reachability through
// parent lists) is the job of c13_cast_relation_records.

static mut G_SUB: [[bool; 3]; 3] = [[false; 3]; 3];
static mut G_IDS: [usize; 3] = [0; 3];

fn rec_index_of_name(r: &Record) -> usize {
    match r.name.as_str() {
        "A" => 0,
        "B" => 1,
        _ => 2,
    }
}

fn stub_is_subclass_of(this: &Record, _sm: &SymbolMap, other: RecordId) -> bool {
    let a = rec_index_of_name(this);
    let oi = other.index();
    let b = unsafe {
        if oi == G_IDS[0] { 0 } else if oi == G_IDS[1] { 1 } else { 2 }
    };
    unsafe { G_SUB[a][b] }
}

#[kani::proof]
#[kani::unwind(6)]
#[kani::stub(std::hash::RandomState::new, fixed_random_state)]
#[kani::stub(crate::symbol_map::record::Record::is_subclass_of, stub_is_subclass_of)]
fn c13_cast_relation_record_pairs() {
    let loc = FileRange::new(FileId(0), TextRange::empty(0.into()));
    let mut arena: Arena<Record> = Arena::new();
    let r0 = arena.alloc(Record::new("A".into(), RecordKind::Class, loc));
    let r1 = arena.alloc(Record::new("B".into(), RecordKind::Class, loc));
    let r2 = arena.alloc(Record::new("C".into(), RecordKind::Class, loc));
    // the subclass relation: reachability over symbolic acyclic parent edges B->A, C->A, C->B
    let (e10, e20, e21): (bool, bool, bool) = (kani::any(), kani::any(), kani::any());
    let h = Hier { ids: [r0, r1, r2], e10, e20, e21 };
    let stubs_on = unsafe { G_STUBS_ON };
    if stubs_on {
        // under the solver Record::is_subclass_of is replaced by this relation (its own
        // recursion over parent lists does not finish, see DESIGN C13)
        let mut sub = [[false; 3]; 3];
        sub[1][0] = is_sub(&h, 1, 0);
        sub[2][0] = is_sub(&h, 2, 0);
        sub[2][1] = is_sub(&h, 2, 1);
        unsafe {
            G_SUB = sub;
            G_IDS = [r0.index(), r1.index(), r2.index()];
        }
    } else {
        // native replay (no stubs): the same relation through the real parent lists
        if e10 {
            arena[r1].add_parent(r0);
        }
        if e20 {
            arena[r2].add_parent(r0);
        }
        if e21 {
            arena[r2].add_parent(r1);
        }
    }
    let sm = SymbolMap { record_list: arena, ..Default::default() };
    let (a, na, la) = any_rec_type(&h, 2);
    let (b, nb, lb) = any_rec_type(&h, 2);
    let got = a.can_be_casted_to(&sm, &b);
    let want = ref_rec_compatible(&h, (na, la), (nb, lb));
    assert!(got == want, "C13: a record (or list of records) converts exactly to itself and to its superclasses");
    kani::cover!(got && la == 2 && lb == 0 && na == 1 && !e20, "W: list<C> to list<A> through B");
    kani::cover!(!got && la == 0 && lb == 2 && na == 1 && e20, "W: list<A> is not list<C> although C is a subclass of A");
    std::mem::forget(a);
    std::mem::forget(b);
    std::mem::forget(sm);
}
