// Kani harnesses for C13 (kernel): Type::can_be_casted_to == reference compatibility
// relation, for all pairs of record-free types of depth <= 2.  Child module of
// crates/ide/src/symbol_map/typ.rs.
#![allow(dead_code, unused_imports)]

use super::*;

pub fn fixed_random_state() -> std::hash::RandomState {
    unsafe { std::mem::transmute::<[u64; 2], std::hash::RandomState>([0u64; 2]) }
}

/// an arbitrary record-free type of nesting depth <= depth
fn any_type(depth: u32) -> Type {
    let tag: u8 = kani::any();
    kani::assume(tag < 10);
    match tag {
        0 => Type::Bit,
        1 => Type::Int,
        2 => Type::String,
        3 => Type::Code,
        4 => Type::Dag,
        5 => {
            let n: usize = kani::any();
            kani::assume(n <= 3);
            Type::Bits(n)
        }
        6 => {
            if depth == 0 {
                Type::List(Box::new(Type::Int))
            } else {
                Type::List(Box::new(any_type(depth - 1)))
            }
        }
        7 => Type::Uninitialized,
        8 => Type::Unknown,
        _ => Type::Any,
    }
}

/// reference relation, from the TableGen Programmer's Reference: `?` and the empty-list
/// element type are wildcards; bit <-> int; int <-> bits<n>; string <-> code; lists are
/// covariant; otherwise the types must be identical.
fn ref_compatible(a: &Type, b: &Type) -> bool {
    if matches!(a, Type::Uninitialized | Type::Any) || matches!(b, Type::Uninitialized | Type::Any) {
        return true;
    }
    match (a, b) {
        (Type::Int, Type::Bit) | (Type::Bit, Type::Int) => true,
        (Type::Int, Type::Bits(_)) | (Type::Bits(_), Type::Int) => true,
        (Type::String, Type::Code) | (Type::Code, Type::String) => true,
        (Type::List(x), Type::List(y)) => ref_compatible(x, y),
        (Type::Bit, Type::Bit)
        | (Type::Int, Type::Int)
        | (Type::String, Type::String)
        | (Type::Code, Type::Code)
        | (Type::Dag, Type::Dag)
        | (Type::Unknown, Type::Unknown) => true,
        (Type::Bits(n), Type::Bits(m)) => n == m,
        _ => false,
    }
}

fn depth_of(t: &Type) -> u32 {
    match t {
        Type::List(x) => 1 + depth_of(x),
        _ => 0,
    }
}

#[kani::proof]
#[kani::unwind(5)]
#[kani::stub(std::hash::RandomState::new, fixed_random_state)]
fn c13_cast_relation_q() {
    let a = any_type(2);
    let b = any_type(2);
    let sm = SymbolMap::default();
    let got = a.can_be_casted_to(&sm, &b);
    assert!(got == ref_compatible(&a, &b), "C13: can_be_casted_to equals the reference compatibility relation");
    kani::cover!(got && depth_of(&a) == 2 && depth_of(&b) == 2, "W: compatible nested lists");
    kani::cover!(!got && depth_of(&a) == 2 && depth_of(&b) == 2, "W: incompatible nested lists");
    // helper predicates used by the operator checks
    assert!(a.is_bits() == matches!(a, Type::Bits(_) | Type::Uninitialized));
    assert!(a.is_list() == matches!(a, Type::List(_) | Type::Uninitialized));
    match (&a, a.element_typ()) {
        (Type::Bits(_), Some(Type::Bit)) => {}
        (Type::List(x), Some(e)) => assert!(**x == e, "element type of a list"),
        (Type::Bits(_), _) | (Type::List(_), _) => assert!(false, "element type missing"),
        (_, e) => assert!(e.is_none()),
    }
    std::mem::forget(a);
    std::mem::forget(b);
    std::mem::forget(sm);
}

#[kani::proof]
#[kani::unwind(6)]
#[kani::stub(std::hash::RandomState::new, fixed_random_state)]
fn c13_cast_relation_t() {
    let a = any_type(3);
    let b = any_type(3);
    let sm = SymbolMap::default();
    let got = a.can_be_casted_to(&sm, &b);
    assert!(got == ref_compatible(&a, &b), "C13: can_be_casted_to equals the reference compatibility relation");
    kani::cover!(got && depth_of(&a) == 3 && depth_of(&b) == 3, "W: compatible nested lists");
    std::mem::forget(a);
    std::mem::forget(b);
    std::mem::forget(sm);
}
