// Kani harnesses for C10 on ide::line_index (child module: private items).
// LineIndex's methods are one-line wrappers around free functions over (&str, &[TextSize]);
// heap-backed String/Vec with symbolic contents explode under CBMC (measured: 52 M SAT
// variables for a 3-byte text), so the solver decides the free functions on stack data:
//  A: for_each_line_start(text, sink) yields exactly the reference line starts (= what
//     LineIndex::new pushes into line_starts)
//  B: for every (text, line_starts = reference line starts): pos_to_line_col /
//     line_col_to_pos / pos_to_line / line_to_pos equal the reference
//  W: the wrappers LineIndex::{new, pos_to_line_col, ...} on a concrete text (glue check)
// The lsp-level pass-through (to_proto/from_proto) is harness C in harness/lsp/position_h.rs.
#![allow(dead_code, unused_imports)]

use super::*;

// alphabet of the property's quantifier: a, space, LF, CR, 2-byte, 3-byte, 4-byte char,
// and the non-terminators FF and U+2028
const NSYM: u8 = 9;
const LF: u8 = 2;
const CR: u8 = 3;

fn sym_bytes(s: u8) -> ([u8; 4], usize) {
    match s {
        0 => ([b'a', 0, 0, 0], 1),
        1 => ([b' ', 0, 0, 0], 1),
        2 => ([b'\n', 0, 0, 0], 1),
        3 => ([b'\r', 0, 0, 0], 1),
        4 => ([0xC3, 0xA9, 0, 0], 2),       // U+00E9
        5 => ([0xE2, 0x82, 0xAC, 0], 3),    // U+20AC
        6 => ([0xF0, 0x9F, 0x98, 0x80], 4), // U+1F600 (2 UTF-16 units)
        7 => ([0x0C, 0, 0, 0], 1),          // form feed: NOT a line terminator
        _ => ([0xE2, 0x80, 0xA8, 0], 3),    // U+2028: NOT a line terminator
    }
}
fn sym_u16(s: u8) -> u32 {
    if s == 6 { 2 } else { 1 }
}

const MAXN: usize = 9;

struct Text<const N: usize, const B: usize> {
    syms: [u8; N],
    n: usize,
    buf: [u8; B],
    len: usize,
    /// byte offset of symbol index k (k = 0..=n)
    off: [usize; MAXN + 1],
}

/// every text of at most N alphabet symbols (B = 4 N bytes of buffer)
fn any_text<const N: usize, const B: usize>() -> Text<N, B> {
    let syms: [u8; N] = kani::any();
    let n: usize = kani::any();
    kani::assume(n <= N);
    let mut buf = [0u8; B];
    let mut off = [0usize; MAXN + 1];
    let mut len = 0;
    let mut i = 0;
    while i < N {
        kani::assume(syms[i] < NSYM);
        if i < n {
            let (b, l) = sym_bytes(syms[i]);
            let mut j = 0;
            while j < 4 {
                if j < l && len + j < B {
                    buf[len + j] = b[j];
                }
                j += 1;
            }
            len += l;
        }
        off[i + 1] = len;
        i += 1;
    }
    Text { syms, n, buf, len, off }
}

/// reference line starts as symbol indices: after LF, after lone CR, after CR LF
fn ref_line_starts<const N: usize, const B: usize>(t: &Text<N, B>) -> ([usize; MAXN + 1], usize) {
    let mut starts = [0usize; MAXN + 1];
    let mut cnt = 1; // line 0 starts at symbol 0
    let mut i = 0;
    while i < t.n {
        let s = t.syms[i];
        if s == CR && i + 1 < t.n && t.syms[i + 1] == LF {
            i += 2;
            starts[cnt] = i;
            cnt += 1;
            continue;
        }
        i += 1;
        if s == CR || s == LF {
            starts[cnt] = i;
            cnt += 1;
        }
    }
    (starts, cnt)
}

/// reference: (line, utf16 column) of symbol index k; None if k is strictly inside a CR LF pair
fn ref_position<const N: usize, const B: usize>(t: &Text<N, B>, k: usize) -> Option<(usize, u32)> {
    let mut line = 0usize;
    let mut line_start = 0usize;
    let mut i = 0;
    while i < k {
        let s = t.syms[i];
        if s == CR && i + 1 < t.n && t.syms[i + 1] == LF {
            if i + 2 <= k {
                line += 1;
                line_start = i + 2;
                i += 2;
                continue;
            }
            return None;
        }
        if s == CR || s == LF {
            line += 1;
            line_start = i + 1;
        }
        i += 1;
    }
    let mut col = 0u32;
    let mut j = line_start;
    while j < k {
        col += sym_u16(t.syms[j]);
        j += 1;
    }
    Some((line, col))
}

/// reference inverse: symbol index for (line, col); None if the line does not exist
/// or the column falls inside a surrogate pair
fn ref_offset<const N: usize, const B: usize>(t: &Text<N, B>, line: usize, col: u32) -> Option<usize> {
    let mut cur = 0usize;
    let mut i = 0;
    while cur < line {
        if i >= t.n {
            return None;
        }
        let s = t.syms[i];
        if s == CR && i + 1 < t.n && t.syms[i + 1] == LF {
            cur += 1;
            i += 2;
            continue;
        }
        if s == CR || s == LF {
            cur += 1;
        }
        i += 1;
    }
    let mut units = 0u32;
    while i < t.n && units < col {
        let s = t.syms[i];
        if s == CR || s == LF {
            break; // column past the end of the line means the line end
        }
        units += sym_u16(s);
        i += 1;
    }
    if units > col {
        return None;
    }
    Some(i)
}

// ---------------------------------------------------------------------------
// A: the line-start scan used by LineIndex::new

fn new_step<const N: usize, const B: usize>() {
    let t: Text<N, B> = any_text();
    let text = unsafe { std::str::from_utf8_unchecked(&t.buf[..t.len]) };
    let mut got = [0usize; MAXN + 2];
    let mut cnt_got = 0usize;
    for_each_line_start(text, |s| {
        if cnt_got < MAXN + 2 {
            got[cnt_got] = usize::from(s);
        }
        cnt_got += 1;
    });
    let (starts, cnt) = ref_line_starts(&t);
    assert!(cnt_got == cnt, "C10: one line start per line (LF, CR, CRLF terminate a line; FF, U+2028 do not)");
    let mut i = 0;
    while i < MAXN + 1 {
        if i < cnt {
            assert!(got[i] == t.off[starts[i]], "C10: line start offsets");
        }
        i += 1;
    }
    kani::cover!(cnt >= 3, "W: three lines");
    kani::cover!(cnt == 1 && t.n == N, "W: a full-length text without terminator");
}

// ---------------------------------------------------------------------------
// B: the conversions, for every text with its reference line starts

fn starts_of<const N: usize, const B: usize>(t: &Text<N, B>) -> ([TextSize; MAXN + 1], usize) {
    let (starts, cnt) = ref_line_starts(t);
    let mut v = [TextSize::from(0); MAXN + 1];
    let mut i = 0;
    while i < MAXN + 1 {
        if i < cnt {
            v[i] = TextSize::try_from(t.off[starts[i]]).unwrap();
        }
        i += 1;
    }
    (v, cnt)
}

fn to_step<const N: usize, const B: usize>() {
    let t: Text<N, B> = any_text();
    let text = unsafe { std::str::from_utf8_unchecked(&t.buf[..t.len]) };
    let (v, cnt) = starts_of(&t);
    let ls = &v[..cnt];
    let k: usize = kani::any();
    kani::assume(k <= t.n);
    let off = t.off[k];
    let (line, col) = pos_to_line_col(text, ls, TextSize::try_from(off).unwrap());
    let l2 = pos_to_line(ls, TextSize::try_from(off).unwrap());
    assert!(l2 == line, "pos_to_line agrees with pos_to_line_col");
    if let Some((rl, rc)) = ref_position(&t, k) {
        assert!(line == rl, "C10: offset maps to the zero-based line containing it");
        assert!(col == rc, "C10: column is the UTF-16 column within the line");
        let back = line_col_to_pos(text, ls, line, col);
        assert!(usize::from(back) == off, "C10: converting back returns the same offset");
        if N >= 4 {
            kani::cover!(rl == 2, "W: third line reached");
            kani::cover!(rc >= 3 && t.syms[k - 1] == 6, "W: astral char before the offset");
        }
    }
    kani::cover!(k == t.n && t.n == N, "W: end offset of a full-length text");
}

fn from_step<const N: usize, const B: usize>() {
    let t: Text<N, B> = any_text();
    let text = unsafe { std::str::from_utf8_unchecked(&t.buf[..t.len]) };
    let (v, cnt) = starts_of(&t);
    let ls = &v[..cnt];
    let line: usize = kani::any();
    let col: u32 = kani::any();
    kani::assume(line <= N + 1);
    kani::assume(col <= 2 * N as u32 + 1);
    let got = usize::from(line_col_to_pos(text, ls, line, col));
    assert!(got <= t.len, "C10: result stays inside the text");
    assert!(text.is_char_boundary(got), "C10: result on a char boundary");
    if let Some(k) = ref_offset(&t, line, col) {
        assert!(got == t.off[k], "C10: position maps to the reference offset, clamped to the line end");
        if N >= 3 {
            kani::cover!(k < t.n && (t.syms[k] == LF || t.syms[k] == CR) && col > 2, "W: column clamped to the line end");
        }
    }
    if line < cnt {
        let lp = line_to_pos(text, ls, line);
        assert!(usize::from(lp) == usize::from(line_col_to_pos(text, ls, line, 0)), "line_to_pos is column 0");
    } else {
        assert!(got == t.len, "a line past the end maps to the end of the text");
    }
    if N >= 2 {
        kani::cover!(line == 1 && col == 1 && got == 2, "W: second line, second column");
    }
}

// W: the struct wrappers on a concrete text (new -> line_starts/text; methods delegate)
#[kani::proof]
#[kani::unwind(8)]
fn c10_wrappers_concrete() {
    let li = LineIndex::new("a\r\nb");
    assert!(li.line_starts.len() == 2);
    assert!(li.pos_to_line(TextSize::from(3)) == 1);
    assert!(li.pos_to_line_col(TextSize::from(4)) == (1, 1));
    assert!(li.line_col_to_pos(1, 1) == TextSize::from(4));
    assert!(li.line_to_pos(1) == TextSize::from(3));
    assert!(li.line_to_pos(9) == TextSize::from(4));
    std::mem::forget(li);
}

macro_rules! li_harness {
    ($name:ident, $f:ident, $n:expr, $b:expr, $unwind:expr) => {
        #[kani::proof]
        #[kani::unwind($unwind)]
        fn $name() {
            $f::<$n, $b>();
        }
    };
}

li_harness!(c10_new_n4, new_step, 4, 16, 18);
li_harness!(c10_to_n4, to_step, 4, 16, 18);
li_harness!(c10_from_n4, from_step, 4, 16, 18);
li_harness!(c10_new_n6, new_step, 6, 24, 26);
li_harness!(c10_to_n6, to_step, 6, 24, 26);
li_harness!(c10_from_n6, from_step, 6, 24, 26);
li_harness!(c10_new_n3, new_step, 3, 12, 14);
li_harness!(c10_to_n3, to_step, 3, 12, 14);
li_harness!(c10_from_n3, from_step, 3, 12, 14);
